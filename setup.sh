#!/bin/bash
# Run once after a fresh restore, offline: warms the Go build cache for the harness
# (with and without -race) so that the first check does not pay the cold build.
set -u
cd "$(dirname "$0")" || exit 1
export GOFLAGS=-mod=mod GOPROXY=off GOSUMDB=off GOTOOLCHAIN=local
mkdir -p bin evidence
go build -tags verif -o bin/vcheck ./cmd/vcheck || exit 1
go build -race -tags verif -o bin/vcheck-race ./cmd/vcheck || exit 1
echo "setup ok: $(bin/vcheck list | tr '\n' ' ')"

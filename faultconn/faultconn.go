// Package faultconn wraps the client side of a connection: it counts and logs
// every operation, remembers the read deadline that is armed, and can make the
// k-th operation of a kind fail in a chosen way. It deliberately is not a
// *net.TCPConn (writev is not available through it).
package faultconn

import (
	"errors"
	"fmt"
	"io"
	"net"
	"sync"
	"time"
)

// Op kinds.
const (
	Read             = "Read"
	Write            = "Write"
	SetReadDeadline  = "SetReadDeadline"
	SetWriteDeadline = "SetWriteDeadline"
	Close            = "Close"
	Any              = "Any"
)

// Fault says which operation fails and how.
type Fault struct {
	Kind string // op kind whose K-th occurrence is hit ("Any" counts all operations)
	K    int    // 1-based
	// Mode: "error" (fail, nothing transferred), "partial" (Write: transfer
	// Bytes bytes then fail; Read: deliver at most Bytes bytes then EOF),
	// "timeout" (a net.Error with Timeout()==true), "eof" (Read: io.EOF),
	// "callback" (call OnHit and let the operation proceed), "block" (Write:
	// transfer Bytes bytes, call OnHit, then block - like a peer that stopped
	// reading - until this Conn is closed, and fail).
	Mode  string
	Bytes int
	OnHit func() `json:"-"`
}

// Event is one logged operation.
type Event struct {
	T        time.Duration
	Kind     string
	N        int // bytes or 0
	Err      string
	Hit      bool // this is the operation the fault was injected on
	Deadline time.Time
}

// Conn is the instrumented connection.
type Conn struct {
	net.Conn
	mu        sync.Mutex
	start     time.Time
	counts    map[string]int
	events    []Event
	fault     *Fault
	fired     bool
	firedAt   time.Duration
	readDL    time.Time
	closed    bool
	closeCh   chan struct{}
	failedOps int
	// BeforeWriteReturn, if set, is called after the bytes of a Write were
	// handed to the underlying connection and before Write returns.
	BeforeWriteReturn func(n int)
	// OnWrite, if set, is called with the bytes of every Write before they are
	// handed to the underlying connection (in the caller's goroutine).
	OnWrite func(b []byte)
	// AfterRead, if set, is called with the number of bytes a Read returned.
	AfterRead func(n int)
	// BeforeSetReadDeadline, if set, is called at the start of every
	// SetReadDeadline with the requested deadline (in the caller's goroutine).
	BeforeSetReadDeadline func(t time.Time)
}

type timeoutErr struct{}

func (timeoutErr) Error() string   { return "i/o timeout (injected)" }
func (timeoutErr) Timeout() bool   { return true }
func (timeoutErr) Temporary() bool { return true }

// ErrInjected is the error injected operations fail with.
var ErrInjected = errors.New("injected connection fault")

// New wraps c.
func New(c net.Conn, f *Fault) *Conn {
	return &Conn{Conn: c, start: time.Now(), counts: map[string]int{}, fault: f, closeCh: make(chan struct{})}
}

// hit decides whether this operation is the one to fail.
func (c *Conn) hit(kind string) *Fault {
	c.mu.Lock()
	defer c.mu.Unlock()
	c.counts[kind]++
	c.counts[Any]++
	f := c.fault
	if f == nil || c.fired {
		return nil
	}
	if (f.Kind == kind && c.counts[kind] == f.K) || (f.Kind == Any && c.counts[Any] == f.K) {
		c.fired = true
		c.firedAt = time.Since(c.start)
		return f
	}
	return nil
}

func (c *Conn) log(e Event) {
	c.mu.Lock()
	e.T = time.Since(c.start)
	if e.Err != "" {
		c.failedOps++
	}
	c.events = append(c.events, e)
	c.mu.Unlock()
}

func errStr(err error) string {
	if err == nil {
		return ""
	}
	return err.Error()
}

func (c *Conn) Read(b []byte) (int, error) {
	if f := c.hit(Read); f != nil {
		switch f.Mode {
		case "callback":
			if f.OnHit != nil {
				f.OnHit()
			}
		case "partial":
			n := f.Bytes
			if n > len(b) {
				n = len(b)
			}
			m, err := io.ReadFull(c.Conn, b[:n])
			if err == nil {
				err = io.EOF
			}
			c.log(Event{Kind: Read, N: m, Err: errStr(err), Hit: true})
			if m > 0 {
				return m, nil // the EOF follows on the next read
			}
			return 0, io.EOF
		case "timeout":
			c.log(Event{Kind: Read, Err: "timeout", Hit: true})
			return 0, timeoutErr{}
		case "eof":
			c.log(Event{Kind: Read, Err: "EOF", Hit: true})
			return 0, io.EOF
		default:
			c.log(Event{Kind: Read, Err: ErrInjected.Error(), Hit: true})
			return 0, ErrInjected
		}
	}
	c.mu.Lock()
	afterPartial := c.fired && c.fault != nil && c.fault.Kind == Read && c.fault.Mode == "partial"
	c.mu.Unlock()
	if afterPartial {
		c.log(Event{Kind: Read, Err: "EOF"})
		return 0, io.EOF
	}
	n, err := c.Conn.Read(b)
	c.log(Event{Kind: Read, N: n, Err: errStr(err)})
	if c.AfterRead != nil && n > 0 {
		c.AfterRead(n)
	}
	return n, err
}

func (c *Conn) Write(b []byte) (int, error) {
	if c.OnWrite != nil {
		c.OnWrite(b)
	}
	if f := c.hit(Write); f != nil {
		switch f.Mode {
		case "callback":
			if f.OnHit != nil {
				f.OnHit()
			}
		case "partial":
			n := f.Bytes
			if n > len(b) {
				n = len(b)
			}
			m, _ := c.Conn.Write(b[:n])
			c.log(Event{Kind: Write, N: m, Err: ErrInjected.Error(), Hit: true})
			return m, ErrInjected
		case "block":
			n := f.Bytes
			if n > len(b) {
				n = len(b)
			}
			m, _ := c.Conn.Write(b[:n])
			if f.OnHit != nil {
				f.OnHit()
			}
			<-c.closeCh
			c.log(Event{Kind: Write, N: m, Err: "blocked until closed", Hit: true})
			return m, net.ErrClosed
		case "timeout":
			c.log(Event{Kind: Write, Err: "timeout", Hit: true})
			return 0, timeoutErr{}
		default:
			c.log(Event{Kind: Write, Err: ErrInjected.Error(), Hit: true})
			return 0, ErrInjected
		}
	}
	n, err := c.Conn.Write(b)
	if c.BeforeWriteReturn != nil && err == nil {
		c.BeforeWriteReturn(n)
	}
	c.log(Event{Kind: Write, N: n, Err: errStr(err)})
	return n, err
}

// SetReadDeadline records the deadline.
func (c *Conn) SetReadDeadline(t time.Time) error {
	if c.BeforeSetReadDeadline != nil {
		c.BeforeSetReadDeadline(t)
	}
	if f := c.hit(SetReadDeadline); f != nil {
		if f.Mode == "callback" {
			if f.OnHit != nil {
				f.OnHit()
			}
		} else {
			c.log(Event{Kind: SetReadDeadline, Err: ErrInjected.Error(), Hit: true, Deadline: t})
			return ErrInjected
		}
	}
	err := c.Conn.SetReadDeadline(t)
	c.mu.Lock()
	if err == nil {
		c.readDL = t
	}
	c.mu.Unlock()
	c.log(Event{Kind: SetReadDeadline, Err: errStr(err), Deadline: t})
	return err
}

// SetDeadline sets both deadlines; the read part is recorded like SetReadDeadline.
func (c *Conn) SetDeadline(t time.Time) error {
	err := c.Conn.SetDeadline(t)
	c.mu.Lock()
	if err == nil {
		c.readDL = t
	}
	c.mu.Unlock()
	c.log(Event{Kind: SetReadDeadline, Err: errStr(err), Deadline: t})
	return err
}

// SetWriteDeadline may fail by injection.
func (c *Conn) SetWriteDeadline(t time.Time) error {
	if f := c.hit(SetWriteDeadline); f != nil {
		if f.Mode == "callback" {
			if f.OnHit != nil {
				f.OnHit()
			}
		} else {
			c.log(Event{Kind: SetWriteDeadline, Err: ErrInjected.Error(), Hit: true})
			return ErrInjected
		}
	}
	err := c.Conn.SetWriteDeadline(t)
	c.log(Event{Kind: SetWriteDeadline, Err: errStr(err)})
	return err
}

// Close closes the underlying connection.
func (c *Conn) Close() error {
	c.hit(Close)
	c.mu.Lock()
	if !c.closed {
		close(c.closeCh)
	}
	c.closed = true
	c.mu.Unlock()
	err := c.Conn.Close()
	c.log(Event{Kind: Close, Err: errStr(err)})
	return err
}

// Fired reports whether the fault has been injected.
func (c *Conn) Fired() bool {
	c.mu.Lock()
	defer c.mu.Unlock()
	return c.fired
}

// Closed reports whether Close was called.
func (c *Conn) Closed() bool {
	c.mu.Lock()
	defer c.mu.Unlock()
	return c.closed
}

// ReadDeadline returns the read deadline currently armed (zero = none).
func (c *Conn) ReadDeadline() time.Time {
	c.mu.Lock()
	defer c.mu.Unlock()
	return c.readDL
}

// Counts returns operation counts per kind.
func (c *Conn) Counts() map[string]int {
	c.mu.Lock()
	defer c.mu.Unlock()
	out := map[string]int{}
	for k, v := range c.counts {
		out[k] = v
	}
	return out
}

// Events returns a copy of the operation log.
func (c *Conn) Events() []Event {
	c.mu.Lock()
	defer c.mu.Unlock()
	return append([]Event(nil), c.events...)
}

// Since returns the time since the connection was created.
func (c *Conn) Since() time.Duration { return time.Since(c.start) }

// ArmedAfterLastWrite looks at the recorded order of operations: armed is true
// if the last successful Write is followed by a successful SetReadDeadline and
// the latest such call asked for a non-zero deadline; it then returns that
// deadline and the completion time of that Write. wrote is false if nothing
// has been written yet.
func (c *Conn) ArmedAfterLastWrite() (armed bool, deadline, writeAt time.Time, wrote bool) {
	c.mu.Lock()
	defer c.mu.Unlock()
	iw := -1
	for i := len(c.events) - 1; i >= 0; i-- {
		if e := c.events[i]; e.Kind == Write && e.Err == "" && e.N > 0 {
			iw = i
			break
		}
	}
	if iw < 0 {
		return false, time.Time{}, time.Time{}, false
	}
	writeAt = c.start.Add(c.events[iw].T)
	for i := len(c.events) - 1; i > iw; i-- {
		if e := c.events[i]; e.Kind == SetReadDeadline && e.Err == "" {
			return !e.Deadline.IsZero(), e.Deadline, writeAt, true
		}
	}
	return false, time.Time{}, writeAt, true
}

// LastArm returns the deadline asked for by the latest successful non-zero
// SetReadDeadline call and the moment that call was made.
func (c *Conn) LastArm() (deadline, at time.Time, ok bool) {
	c.mu.Lock()
	defer c.mu.Unlock()
	for i := len(c.events) - 1; i >= 0; i-- {
		if e := c.events[i]; e.Kind == SetReadDeadline && e.Err == "" && !e.Deadline.IsZero() {
			return e.Deadline, c.start.Add(e.T), true
		}
	}
	return time.Time{}, time.Time{}, false
}

// WritesOKAfter counts the writes that transferred bytes successfully and
// completed after t.
func (c *Conn) WritesOKAfter(t time.Time) int {
	c.mu.Lock()
	defer c.mu.Unlock()
	n := 0
	for _, e := range c.events {
		if e.Kind == Write && e.Err == "" && e.N > 0 && c.start.Add(e.T).After(t) {
			n++
		}
	}
	return n
}

func (f *Fault) String() string {
	if f == nil {
		return "none"
	}
	return fmt.Sprintf("%s#%d/%s/%d", f.Kind, f.K, f.Mode, f.Bytes)
}

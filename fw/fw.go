// Package fw is the small framework shared by all property workloads:
// batch context (case accounting, distinct signatures, violations, samples),
// and the registry of properties.
package fw

import (
	"encoding/json"
	"fmt"
	"hash/fnv"
	"math/rand"
	"os"
	"sort"
	"sync"
	"time"
)

// Violation is one refuting observation.
type Violation struct {
	Case    string `json:"case"`
	Finding string `json:"finding"` // signature used for known-findings matching
	Detail  string `json:"detail"`
	Replay  any    `json:"replay,omitempty"`
}

// BatchOut is what a child process reports for one batch.
type BatchOut struct {
	Evaluations   int64            `json:"evaluations"`
	NonTrivial    int64            `json:"nontrivial"`
	Sigs          []uint64         `json:"sigs"`
	SigsTruncated bool             `json:"sigs_truncated"`
	Inconclusive  map[string]int64 `json:"inconclusive"`
	Counters      map[string]int64 `json:"counters"`
	Samples       []any            `json:"samples"`
	Violations    []Violation      `json:"violations"`
	ViolDropped   int64            `json:"violations_dropped"`
	Exhaustive    bool             `json:"exhaustive"`
	DistinctBC    int64            `json:"distinct_by_construction"`
	Done          bool             `json:"done"`
}

const (
	maxSigs       = 200000
	maxSamples    = 4
	maxViolations = 300 // at most 3 per distinct finding key
)

// Ctx is handed to a property's Run function (one batch in one process).
type Ctx struct {
	Prop     string
	Tier     string
	Seed     int64
	Batch    int
	NBatches int

	mu         sync.Mutex
	out        BatchOut
	sigs       map[uint64]struct{}
	perFinding map[string]int
	progress   string
	outPath    string
	started    time.Time
}

// NewCtx creates a batch context.
func NewCtx(prop, tier string, seed int64, batch, nbatches int, outPath, progress string) *Ctx {
	return &Ctx{Prop: prop, Tier: tier, Seed: seed, Batch: batch, NBatches: nbatches,
		sigs: map[uint64]struct{}{}, progress: progress, outPath: outPath,
		out:     BatchOut{Inconclusive: map[string]int64{}, Counters: map[string]int64{}},
		started: time.Now()}
}

// Quick reports whether the tier is "quick".
func (c *Ctx) Quick() bool { return c.Tier != "thorough" }

// Pick returns q for quick and t for thorough.
func (c *Ctx) Pick(q, t int) int {
	if c.Quick() {
		return q
	}
	return t
}

// Rand returns a PRNG determined by seed, batch and a stream label.
func (c *Ctx) Rand(stream string) *rand.Rand {
	h := fnv.New64a()
	fmt.Fprintf(h, "%d/%d/%s/%s", c.Seed, c.Batch, c.Prop, stream)
	return rand.New(rand.NewSource(int64(h.Sum64())))
}

// Begin records the case about to run, so that a process-fatal event can be
// attributed to it. Cheap enough for wire-level cases; high-volume in-process
// workloads call it once per block of cases.
func (c *Ctx) Begin(caseID string, descr any) {
	if c.progress == "" {
		return
	}
	b, _ := json.Marshal(map[string]any{"case": caseID, "descr": descr})
	_ = os.WriteFile(c.progress, b, 0o644)
}

// Hash64 hashes a string.
func Hash64(s string) uint64 {
	h := fnv.New64a()
	h.Write([]byte(s))
	return h.Sum64()
}

// Eval counts one evaluated case; sig identifies it for distinctness and
// nontrivial says whether it counts towards distinct_nontrivial.
func (c *Ctx) Eval(sig string, nontrivial bool) {
	c.EvalH(Hash64(sig), nontrivial)
}

// EvalH is Eval with a precomputed hash.
func (c *Ctx) EvalH(h uint64, nontrivial bool) {
	c.mu.Lock()
	c.out.Evaluations++
	if nontrivial {
		c.out.NonTrivial++
		if len(c.sigs) < maxSigs {
			c.sigs[h] = struct{}{}
		} else if _, ok := c.sigs[h]; !ok {
			c.out.SigsTruncated = true
		}
	}
	c.mu.Unlock()
}

// EvalDistinctN counts n evaluated non-trivial cases that are pairwise
// distinct by construction (an enumeration over distinct elements), for
// volumes where storing one signature per case is not affordable.
func (c *Ctx) EvalDistinctN(n int64) {
	c.mu.Lock()
	c.out.Evaluations += n
	c.out.NonTrivial += n
	c.out.DistinctBC += n
	c.mu.Unlock()
}

// EvalN counts n evaluations without signatures (already covered by others).
func (c *Ctx) EvalN(n int64) {
	c.mu.Lock()
	c.out.Evaluations += n
	c.mu.Unlock()
}

// Count adds to a named observation counter.
func (c *Ctx) Count(name string, n int64) {
	c.mu.Lock()
	c.out.Counters[name] += n
	c.mu.Unlock()
}

// Max keeps the maximum of a named gauge.
func (c *Ctx) Max(name string, v int64) {
	c.mu.Lock()
	if v > c.out.Counters[name] {
		c.out.Counters[name] = v
	}
	c.mu.Unlock()
}

// Sample keeps a few cases written out.
func (c *Ctx) Sample(v any) {
	c.mu.Lock()
	if len(c.out.Samples) < maxSamples {
		c.out.Samples = append(c.out.Samples, v)
	}
	c.mu.Unlock()
}

// Inconclusive counts a case that could not be judged.
func (c *Ctx) Inconclusive(reason string) {
	c.mu.Lock()
	c.out.Inconclusive[reason]++
	c.mu.Unlock()
}

// SetExhaustive marks the batch as having enumerated a finite space.
func (c *Ctx) SetExhaustive() {
	c.mu.Lock()
	c.out.Exhaustive = true
	c.mu.Unlock()
}

// Violate records a refuting observation.
func (c *Ctx) Violate(caseID, finding, detail string, replay any) {
	c.mu.Lock()
	if c.perFinding == nil {
		c.perFinding = map[string]int{}
	}
	c.perFinding[finding]++
	c.out.Counters["violation_observations"]++
	if c.perFinding[finding] <= 3 && len(c.out.Violations) < maxViolations {
		if len(detail) > 4000 {
			detail = detail[:4000] + "…"
		}
		c.out.Violations = append(c.out.Violations,
			Violation{Case: caseID, Finding: finding, Detail: detail, Replay: replay})
	} else {
		c.out.ViolDropped++
		c.mu.Unlock()
		return
	}
	c.mu.Unlock()
	c.Flush(false)
}

// Borrow runs one batch of another property's quick workload inside this
// batch, for the sake of the process-level monitors (race detector, crash
// monitor). What that workload's own oracle finds is not this property's to
// judge - its check does that without the race detector's slowdown - so those
// findings are counted and dropped.
func (c *Ctx) Borrow(prop string, batch, nbatches int) {
	p := Lookup(prop)
	if p == nil {
		return
	}
	sub := NewCtx(prop, "quick", c.Seed, batch, nbatches, "", c.progress)
	p.Run(sub)
	sub.mu.Lock()
	ev, nv := sub.out.Evaluations, int64(len(sub.out.Violations))+sub.out.ViolDropped
	sub.mu.Unlock()
	c.Count("borrowed_workload_batches", 1)
	c.Count("borrowed_"+prop+"_cases", ev)
	c.Count("borrowed_findings_left_to_their_own_check", nv)
}

// Flush writes the batch output.
func (c *Ctx) Flush(done bool) {
	if c.outPath == "" {
		return
	}
	c.mu.Lock()
	defer c.mu.Unlock()
	c.out.Done = done
	c.out.Sigs = c.out.Sigs[:0]
	for h := range c.sigs {
		c.out.Sigs = append(c.out.Sigs, h)
	}
	sort.Slice(c.out.Sigs, func(i, j int) bool { return c.out.Sigs[i] < c.out.Sigs[j] })
	b, err := json.Marshal(&c.out)
	if err != nil {
		fmt.Fprintln(os.Stderr, "fw: cannot marshal batch output:", err)
		return
	}
	tmp := c.outPath + ".tmp"
	if err := os.WriteFile(tmp, b, 0o644); err == nil {
		_ = os.Rename(tmp, c.outPath)
	}
}

// Plan says how a property's work is split.
type Plan struct {
	Batches  int
	Parallel int           // child processes running at once
	Timeout  time.Duration // per child; firing = inconclusive batch
}

// Prop describes one property's workload.
type Prop struct {
	ID          string
	Level       string // exploration | fault_enumeration
	Race        bool   // child built with -race
	Rule        string
	Assumptions []string
	Plan        func(tier string) Plan
	Run         func(c *Ctx)
	// Floors are per-tier minimum counter values (coverage); below them the
	// run is reported inconclusive. Key "evaluations" refers to the total.
	Floors func(tier string) map[string]int64
	// RaceIsViolation: race reports with gohbase frames refute this property.
	RaceIsViolation bool
}

var registry = map[string]*Prop{}

// Register adds a property workload.
func Register(p *Prop) { registry[p.ID] = p }

// Lookup finds a property workload.
func Lookup(id string) *Prop { return registry[id] }

// IDs lists registered properties.
func IDs() []string {
	var ids []string
	for id := range registry {
		ids = append(ids, id)
	}
	sort.Strings(ids)
	return ids
}

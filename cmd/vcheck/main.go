// vcheck is the driver and the child runner of all property checks.
//
//	vcheck run <ID> [--tier quick|thorough] [--replay file] [--keep]
//	vcheck child <ID> <tier> <seed> <batch> <nbatches> <out> <progress>
//	vcheck race <ID>         (prints "race" if the children need -race)
//	vcheck list
package main

import (
	"bufio"
	"encoding/json"
	"fmt"
	"io"
	"log/slog"
	"os"
	"os/exec"
	"path/filepath"
	"regexp"
	"sort"
	"strconv"
	"strings"
	"sync"
	"syscall"
	"time"

	"verif/fw"
	_ "verif/props"
)

func main() {
	if len(os.Args) < 2 {
		usage()
	}
	switch os.Args[1] {
	case "list":
		for _, id := range fw.IDs() {
			fmt.Println(id)
		}
	case "race":
		if p := fw.Lookup(os.Args[2]); p != nil && p.Race {
			fmt.Println("race")
		}
	case "child":
		child(os.Args[2:])
	case "run":
		os.Exit(run(os.Args[2:]))
	default:
		usage()
	}
}

func usage() {
	fmt.Fprintln(os.Stderr, "usage: vcheck run <ID> [--tier quick|thorough] [--replay file]")
	os.Exit(2)
}

func child(a []string) {
	if len(a) != 7 {
		usage()
	}
	p := fw.Lookup(a[0])
	if p == nil {
		fmt.Fprintln(os.Stderr, "unknown property", a[0])
		os.Exit(2)
	}
	seed, _ := strconv.ParseInt(a[2], 10, 64)
	batch, _ := strconv.Atoi(a[3])
	nb, _ := strconv.Atoi(a[4])
	if !p.Race {
		// attacker-chosen counts must not be able to take the sandbox down:
		// an allocation beyond this limit becomes "fatal error: out of memory"
		// in this child, which the driver reports with its stack.
		lim := uint64(6 << 30)
		_ = syscall.Setrlimit(syscall.RLIMIT_AS, &syscall.Rlimit{Cur: lim, Max: lim})
	}
	slog.SetDefault(slog.New(slog.NewTextHandler(io.Discard, &slog.HandlerOptions{Level: slog.LevelError + 100})))
	c := fw.NewCtx(p.ID, a[1], seed, batch, nb, a[5], a[6])
	p.Run(c)
	c.Flush(true)
}

type knownFinding struct {
	Property string `json:"property"`
	Status   string `json:"status"` // known | fixed
	Match    string `json:"match"`
	Commit   string `json:"commit,omitempty"`
	What     string `json:"what"`
}

func loadKnown(dir string) []knownFinding {
	var f struct {
		Findings []knownFinding `json:"findings"`
	}
	b, err := os.ReadFile(filepath.Join(dir, "known_findings.json"))
	if err != nil {
		return nil
	}
	if err := json.Unmarshal(b, &f); err != nil {
		fmt.Fprintln(os.Stderr, "known_findings.json:", err)
		os.Exit(3)
	}
	return f.Findings
}

func matchKnown(kf []knownFinding, prop, finding string) *knownFinding {
	for i := range kf {
		k := &kf[i]
		if k.Property != prop || k.Status != "known" {
			continue
		}
		if k.Match == finding ||
			(strings.HasSuffix(k.Match, "*") && strings.HasPrefix(finding, strings.TrimSuffix(k.Match, "*"))) {
			return k
		}
	}
	return nil
}

type batchRes struct {
	out      fw.BatchOut
	crashed  bool
	timedOut bool
	log      string
	progress string
	races    []raceReport
}

type raceReport struct {
	harness bool // both accesses are the harness' own code
	key     string
	text    string
}

func run(a []string) int {
	if len(a) < 1 {
		usage()
	}
	id := a[0]
	tier := os.Getenv("VERIF_TIER")
	replay := ""
	keep := false
	for i := 1; i < len(a); i++ {
		switch a[i] {
		case "--tier":
			i++
			tier = a[i]
		case "--replay":
			i++
			replay = a[i]
		case "--keep":
			keep = true
		}
	}
	if tier != "thorough" {
		tier = "quick"
	}
	seed := int64(1)
	if s := os.Getenv("VERIF_SEED"); s != "" {
		if v, err := strconv.ParseInt(s, 10, 64); err == nil {
			seed = v
		}
	}
	p := fw.Lookup(id)
	if p == nil {
		fmt.Fprintln(os.Stderr, "unknown property", id)
		return 2
	}
	verifDir, _ := os.Getwd()
	exe, _ := os.Executable()
	childExe := exe
	if p.Race {
		childExe = filepath.Join(filepath.Dir(exe), "vcheck-race")
	}
	plan := p.Plan(tier)
	batches := make([]int, 0, plan.Batches)
	for i := 0; i < plan.Batches; i++ {
		batches = append(batches, i)
	}
	if replay != "" {
		var r struct {
			Tier     string `json:"tier"`
			Seed     int64  `json:"seed"`
			Batch    int    `json:"batch"`
			NBatches int    `json:"nbatches"`
		}
		b, err := os.ReadFile(replay)
		if err != nil || json.Unmarshal(b, &r) != nil {
			fmt.Fprintln(os.Stderr, "cannot read replay file", replay)
			return 2
		}
		tier, seed = r.Tier, r.Seed
		plan = p.Plan(tier)
		batches = []int{r.Batch}
	}
	scratch, err := os.MkdirTemp("", "vcheck-"+id+"-")
	if err != nil {
		fmt.Fprintln(os.Stderr, err)
		return 3
	}
	if !keep {
		defer os.RemoveAll(scratch)
	} else {
		fmt.Fprintln(os.Stderr, "scratch kept at", scratch)
	}
	start := time.Now()

	results := make([]*batchRes, len(batches))
	sem := make(chan struct{}, max(1, plan.Parallel))
	var wg sync.WaitGroup
	for i, b := range batches {
		wg.Add(1)
		sem <- struct{}{}
		go func(i, b int) {
			defer wg.Done()
			defer func() { <-sem }()
			results[i] = runChild(childExe, p, tier, seed, b, plan, scratch)
		}(i, b)
	}
	wg.Wait()

	// merge
	known := loadKnown(verifDir)
	sigs := map[uint64]struct{}{}
	var evals, nontriv, violDropped, distinctBC int64
	counters := map[string]int64{}
	inconcl := map[string]int64{}
	var samples []any
	sampleSeen := map[string]bool{}
	var viols []fw.Violation
	violBatch := map[int]int{} // index in viols -> batch
	exhaustive := len(batches) > 0
	truncated := false
	harnessFailure := false
	raceSeen := map[string]string{}
	harnessRaces := map[string]bool{}
	for i, r := range results {
		b := batches[i]
		evals += r.out.Evaluations
		nontriv += r.out.NonTrivial
		violDropped += r.out.ViolDropped
		distinctBC += r.out.DistinctBC
		for _, h := range r.out.Sigs {
			sigs[h] = struct{}{}
		}
		truncated = truncated || r.out.SigsTruncated
		for k, v := range r.out.Counters {
			if strings.HasPrefix(k, "max_") {
				if v > counters[k] {
					counters[k] = v
				}
			} else {
				counters[k] += v
			}
		}
		for k, v := range r.out.Inconclusive {
			inconcl[k] += v
		}
		for _, s := range r.out.Samples {
			js, _ := json.Marshal(s)
			if len(samples) < 4 && !sampleSeen[string(js)] {
				sampleSeen[string(js)] = true
				samples = append(samples, s)
			}
		}
		for _, v := range r.out.Violations {
			violBatch[len(viols)] = b
			viols = append(viols, v)
		}
		if !r.out.Exhaustive {
			exhaustive = false
		}
		if r.timedOut {
			inconcl["batch-timeout"]++
			exhaustive = false
			fmt.Fprintf(os.Stderr, "batch %d timed out; last case: %s\n%s\n", b, r.progress, crashHead(r.log, 40))
		} else if r.crashed {
			exhaustive = false
			site, gohbase := crashSite(r.log)
			if gohbase {
				violBatch[len(viols)] = b
				viols = append(viols, fw.Violation{Case: r.progress, Finding: "crash:" + site,
					Detail: crashHead(r.log, 60)})
			} else {
				harnessFailure = true
				fmt.Fprintf(os.Stderr, "HARNESS FAILURE in batch %d (no gohbase frame in crash); last case: %s\n%s\n",
					b, r.progress, crashHead(r.log, 40))
			}
		}
		for _, rr := range r.races {
			if rr.harness {
				// reported loudly and counted, never a verdict about gohbase
				if _, ok := harnessRaces[rr.key]; !ok {
					harnessRaces[rr.key] = true
					fmt.Fprintf(os.Stderr, "HARNESS RACE (both accesses in /verif code; not a finding about gohbase):\n%s\n", rr.text)
				}
				continue
			}
			if _, ok := raceSeen[rr.key]; !ok {
				raceSeen[rr.key] = rr.text
				if p.RaceIsViolation {
					violBatch[len(viols)] = b
					viols = append(viols, fw.Violation{Case: r.progress, Finding: "race:" + rr.key, Detail: rr.text})
				}
			}
		}
	}
	counters["race_reports_distinct"] = int64(len(raceSeen))
	counters["harness_race_reports"] = int64(len(harnessRaces))

	// classify violations
	knownSeen := map[string]*knownFinding{}
	var real []int
	for i, v := range viols {
		if k := matchKnown(known, id, v.Finding); k != nil {
			knownSeen[k.Match] = k
			continue
		}
		real = append(real, i)
	}
	var knownKeys []string
	for k := range knownSeen {
		knownKeys = append(knownKeys, k)
	}
	sort.Strings(knownKeys)
	for _, k := range knownKeys {
		fmt.Printf("KNOWN-FINDING: property=%s %s\n", id, knownSeen[k].What)
	}

	// floors
	verdict := "held"
	var floorMiss []string
	if p.Floors != nil {
		for k, min := range p.Floors(tier) {
			got := counters[k]
			if k == "evaluations" {
				got = evals
			} else if k == "distinct" {
				got = int64(len(sigs)) + distinctBC
			}
			if got < min {
				floorMiss = append(floorMiss, fmt.Sprintf("%s=%d<%d", k, got, min))
			}
		}
		sort.Strings(floorMiss)
	}
	if len(floorMiss) > 0 && replay == "" {
		verdict = "inconclusive"
	}

	// replays
	exit := 0
	if len(real) > 0 {
		verdict = "violated"
		exit = 1
		dir := filepath.Join(verifDir, "replays", id)
		_ = os.MkdirAll(dir, 0o755)
		seenFinding := map[string]bool{}
		for _, i := range real {
			v := viols[i]
			if seenFinding[v.Finding] && len(seenFinding) > 0 {
				continue
			}
			seenFinding[v.Finding] = true
			name := fmt.Sprintf("%s-seed%d-b%d-%x.json", tier, seed, violBatch[i], fw.Hash64(v.Finding+v.Case)&0xffffff)
			path := filepath.Join(dir, name)
			b, _ := json.MarshalIndent(map[string]any{
				"property": id, "tier": tier, "seed": seed, "batch": violBatch[i], "nbatches": plan.Batches,
				"case": v.Case, "finding": v.Finding, "detail": v.Detail, "replay": v.Replay,
			}, "", " ")
			_ = os.WriteFile(path, b, 0o644)
			fmt.Printf("VIOLATION property=%s replay=%s\n", id, path)
			fmt.Printf("  finding=%s case=%s\n  %s\n", v.Finding, v.Case, firstLines(v.Detail, 12))
		}
	}
	if verdict == "inconclusive" {
		fmt.Printf("INCONCLUSIVE property=%s coverage floor not met: %s\n", id, strings.Join(floorMiss, " "))
	}

	distinct := int64(len(sigs)) + distinctBC
	rule := p.Rule
	if truncated {
		rule += " (distinct signatures are tracked for at most 200000 per batch; the count is a lower bound)"
	}
	ev := map[string]any{
		"property_id": id,
		"tier":        tier,
		"seed":        seed,
		"level":       p.Level,
		"coverage": map[string]any{
			"evaluations":         evals,
			"distinct_nontrivial": distinct,
			"nontrivial_total":    nontriv,
			"rule":                rule,
			"samples":             samples,
			"exhaustive":          exhaustive,
			"observed":            counters,
			"inconclusive":        inconcl,
			"batches":             len(batches),
		},
		"assumptions":             p.Assumptions,
		"wall_s":                  time.Since(start).Seconds(),
		"violations":              len(real),
		"violations_dropped":      violDropped,
		"known_findings_observed": knownKeys,
		"verdict":                 verdict,
		"floor_misses":            floorMiss,
	}
	if samples == nil {
		ev["coverage"].(map[string]any)["samples"] = []any{}
	}
	if replay == "" {
		b, _ := json.MarshalIndent(ev, "", " ")
		evDir := filepath.Join(verifDir, "evidence")
		if d := os.Getenv("VERIF_EVIDENCE_DIR"); d != "" { // tools/coverage.sh: measurement runs leave evidence/ alone
			evDir = d
		}
		_ = os.MkdirAll(evDir, 0o755)
		if err := os.WriteFile(filepath.Join(evDir, id+".json"), b, 0o644); err != nil {
			fmt.Fprintln(os.Stderr, "cannot write evidence:", err)
			return 3
		}
	}
	fmt.Printf("%s tier=%s seed=%d verdict=%s evaluations=%d distinct_nontrivial=%d violations=%d known=%d inconclusive=%v wall=%.1fs\n",
		id, tier, seed, verdict, evals, distinct, len(real), len(knownKeys), inconcl, time.Since(start).Seconds())
	if harnessFailure && exit == 0 {
		return 3
	}
	return exit
}

func runChild(exe string, p *fw.Prop, tier string, seed int64, b int, plan fw.Plan, scratch string) *batchRes {
	res := &batchRes{}
	out := filepath.Join(scratch, fmt.Sprintf("out.%d.json", b))
	prog := filepath.Join(scratch, fmt.Sprintf("progress.%d.json", b))
	logPath := filepath.Join(scratch, fmt.Sprintf("child.%d.log", b))
	raceBase := filepath.Join(scratch, fmt.Sprintf("race.%d", b))
	lf, _ := os.Create(logPath)
	cmd := exec.Command(exe, "child", p.ID, tier, strconv.FormatInt(seed, 10), strconv.Itoa(b),
		strconv.Itoa(plan.Batches), out, prog)
	cmd.Stdout = lf
	cmd.Stderr = lf
	cmd.Env = append(os.Environ(), "GOTRACEBACK=all")
	if p.Race {
		cmd.Env = append(cmd.Env, "GORACE=halt_on_error=0 exitcode=0 history_size=3 log_path="+raceBase)
	}
	if err := cmd.Start(); err != nil {
		res.crashed = true
		res.log = err.Error()
		return res
	}
	done := make(chan error, 1)
	go func() { done <- cmd.Wait() }()
	var werr error
	select {
	case werr = <-done:
	case <-time.After(plan.Timeout):
		res.timedOut = true
		_ = cmd.Process.Signal(syscall.SIGQUIT)
		select {
		case <-done:
		case <-time.After(10 * time.Second):
			_ = cmd.Process.Kill()
			<-done
		}
	}
	lf.Close()
	if b, err := os.ReadFile(out); err == nil {
		_ = json.Unmarshal(b, &res.out)
	}
	if b, err := os.ReadFile(prog); err == nil {
		res.progress = string(b)
	}
	if lb, err := os.ReadFile(logPath); err == nil {
		res.log = string(lb)
	}
	if !res.timedOut && (werr != nil || !res.out.Done) {
		res.crashed = true
	}
	if p.Race {
		files, _ := filepath.Glob(raceBase + ".*")
		for _, f := range files {
			if rb, err := os.ReadFile(f); err == nil {
				res.races = append(res.races, parseRaces(string(rb))...)
			}
		}
	}
	return res
}

var (
	reAddr  = regexp.MustCompile(`0x[0-9a-f]+`)
	reLine  = regexp.MustCompile(`:\d+( \+0x[0-9a-f]+)?`)
	reGorou = regexp.MustCompile(`goroutine \d+`)
	reFunc  = regexp.MustCompile(`^\s*(github\.com/tsuna/gohbase[^\s(]*(\([^)]*\))?[^\s(]*)\(`)
)

// parseRaces splits a race log into reports that involve gohbase frames.
func parseRaces(s string) []raceReport {
	var out []raceReport
	parts := strings.Split(s, "WARNING: DATA RACE")
	for _, part := range parts[1:] {
		if i := strings.Index(part, "=================="); i >= 0 {
			part = part[:i]
		}
		if !strings.Contains(part, "github.com/tsuna/gohbase") {
			continue
		}
		// key: first gohbase function of each of the two accesses
		var fns []string
		secs := regexp.MustCompile(`(?m)^(Read|Write|Previous read|Previous write|Previous atomic|Atomic)[^\n]*\n`).Split(part, -1)
		// owner of each access: the innermost frame that is neither runtime nor
		// standard library. When both accesses are the harness' own (a variable of
		// a workload touched from a hook that runs in one of the client's
		// goroutines), the race is a defect of the harness, not of gohbase.
		harnessOnly := len(secs) > 1
		for _, sec := range secs[1:] {
			if j := strings.Index(sec, "\n\n"); j >= 0 {
				sec = sec[:j]
			}
			owner := ""
			for _, ln := range strings.Split(sec, "\n") {
				f := strings.TrimSpace(ln)
				if f == "" || strings.HasPrefix(f, "/") || !strings.Contains(f, "(") {
					continue
				}
				first := f
				if k := strings.IndexAny(first, "/."); k >= 0 {
					first = first[:k]
				}
				if strings.Contains(f, "github.com/tsuna/gohbase") {
					owner = "gohbase"
					break
				}
				if strings.HasPrefix(f, "verif/") || strings.HasPrefix(f, "main.") {
					owner = "harness"
					break
				}
				_ = first // standard library / runtime frame: look further out
			}
			if owner != "harness" {
				harnessOnly = false
			}
			for _, ln := range strings.Split(sec, "\n") {
				if m := reFunc.FindStringSubmatch(ln); m != nil {
					fns = append(fns, m[1])
					break
				}
			}
		}
		sort.Strings(fns)
		key := strings.Join(fns, "|")
		if key == "" {
			key = "unknown"
		}
		out = append(out, raceReport{key: key, text: "WARNING: DATA RACE" + firstLines(part, 60), harness: harnessOnly})
	}
	return out
}

// crashSite extracts the innermost gohbase function under a panic/fatal error.
func crashSite(log string) (string, bool) {
	idx := strings.Index(log, "panic: ")
	kind := "panic"
	if j := strings.Index(log, "fatal error: "); j >= 0 && (idx < 0 || j < idx) {
		idx = j
		kind = "fatal"
	}
	if idx < 0 {
		if strings.Contains(log, "unexpected signal") {
			idx = strings.Index(log, "unexpected signal")
			kind = "signal"
		} else {
			return "no-panic-line", false
		}
	}
	rest := log[idx:]
	msg := firstLines(rest, 1)
	msg = reAddr.ReplaceAllString(msg, "0x?")
	// the first goroutine block after the message is the crashing one
	blk := rest
	if j := strings.Index(rest, "\ngoroutine "); j >= 0 {
		blk = rest[j+1:]
		if k := strings.Index(blk, "\n\n"); k >= 0 {
			blk = blk[:k]
		}
	}
	sc := bufio.NewScanner(strings.NewReader(blk))
	sc.Buffer(make([]byte, 1<<20), 1<<20)
	first := true
	for sc.Scan() {
		ln := sc.Text()
		if strings.HasPrefix(ln, "\t") || strings.HasPrefix(ln, "goroutine ") || strings.HasPrefix(ln, "[") {
			continue
		}
		if strings.HasPrefix(ln, "panic(") || strings.HasPrefix(ln, "runtime.") ||
			strings.HasPrefix(ln, "runtime/") || strings.HasPrefix(ln, "internal/") {
			continue
		}
		if first {
			first = false
			// innermost non-runtime frame: harness code means harness bug
			if strings.HasPrefix(ln, "verif/") || strings.HasPrefix(ln, "main.") {
				return kind + ":" + strings.TrimSpace(msg), false
			}
		}
		if m := reFunc.FindStringSubmatch(ln); m != nil {
			return kind + ":" + m[1], true
		}
	}
	_ = msg
	return kind + ":" + strings.TrimSpace(msg), false
}

// crashHead returns the first n lines starting at the panic / fatal error /
// SIGQUIT line of a child log.
func crashHead(log string, n int) string {
	best := -1
	for _, k := range []string{"panic: ", "fatal error: ", "SIGQUIT", "unexpected signal"} {
		if i := strings.Index(log, k); i >= 0 && (best < 0 || i < best) {
			best = i
		}
	}
	if best < 0 {
		return tail(log, n)
	}
	return firstLines(log[best:], n)
}

func tail(s string, n int) string {
	lines := strings.Split(s, "\n")
	if len(lines) > n {
		lines = lines[len(lines)-n:]
	}
	return strings.Join(lines, "\n")
}

func firstLines(s string, n int) string {
	lines := strings.Split(s, "\n")
	if len(lines) > n {
		lines = lines[:n]
	}
	return strings.Join(lines, "\n")
}

var _ = reLine
var _ = reGorou

#!/bin/bash
# usage: tools/coverage.sh [tier] [IDs...]
# Measures which statements of gohbase the check workloads actually execute: builds
# the driver with -cover over the gohbase packages, runs the checks (evidence is
# written to a scratch dir, not evidence/), and prints per-function coverage.
# This is a measurement of workload reach, not a verdict; it writes
# coverage/func.txt and coverage/uncovered.txt.
cd "$(dirname "$0")/.." || exit 1
export GOFLAGS=-mod=mod GOPROXY=off GOSUMDB=off GOTOOLCHAIN=local
tier=${1:-quick}; shift
ids=${*:-C01 C02 C03 C04 C05 C06 C07 C08 C10 C11 C12 C13 C14 C15 C16 C17 C18 C19 C20}
B=bin/cover.$$
D=$(mktemp -d /tmp/verifcov.XXXXXX)
mkdir -p "$B" coverage
trap 'rm -rf "$B" "$D"' EXIT
PK=github.com/tsuna/gohbase
go build -tags verif -cover -covermode=atomic \
  -coverpkg=verif/cmd/vcheck,$PK,$PK/region,$PK/hrpc,$PK/zk,$PK/compression/snappy,$PK/filter \
  -o "$B/vcheck" ./cmd/vcheck || exit 3
cp "$B/vcheck" "$B/vcheck-race"   # C09 without the race detector: reach only
for p in $ids; do
  mkdir -p "$D/$p"
  GOCOVERDIR="$D/$p" VERIF_EVIDENCE_DIR="$D/ev" "$B/vcheck" run "$p" --tier "$tier" 2>&1 | grep "^$p tier" | cut -c1-160
done
dirs=$(ls -d "$D"/C* | paste -sd,)
go tool covdata textfmt -i="$dirs" -o "$D/all.txt" || exit 3
go tool cover -func="$D/all.txt" | grep -v "verif_export\|^verif/" > coverage/func.txt
tail -1 coverage/func.txt
# uncovered blocks, file:line ranges
awk 'NR>1 && $NF==0 {print $1}' "$D/all.txt" | grep -v "verif_export\|^verif/" | sort -u > coverage/uncovered.txt
wc -l coverage/uncovered.txt

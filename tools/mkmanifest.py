#!/usr/bin/env python3
"""Generates /verif/MANIFEST.json from the table below (kept next to the checks so
that the manifest never drifts from what is built).  Usage: tools/mkmanifest.py"""
import json, os, subprocess

HERE = os.path.dirname(os.path.dirname(os.path.abspath(__file__)))

ALL = ["C%02d" % i for i in range(1, 21)]

# id -> (category, text, note, technique, design_ref)
CHECKS = {
    "C16": ("exploration",
            "The real comparator is executed on every ordered pair of an exhaustively enumerated small-scope set of "
            "well-formed region names (prefix tables, namespaces, commas and bytes around ',' in start keys, ids of "
            "unequal length), on all triples of a subset, on all search-key/name pairs and on seeded random long "
            "names, and compared with the tuple order of the components the names were built from. Exhaustive inside "
            "the scope, sampled outside it.",
            "Trusted: bytes.Compare as tuple oracle; names are built, never parsed. Names outside the enumerated "
            "scope and the random sample are not judged.",
            "runtime differential oracle over exhaustive small-scope enumeration of inputs", "DESIGN.md §2 C16"),
}

NOT_YET = "check not built yet in this revision of /verif (work in progress; see DESIGN.md for the planned monitor)"

def main():
    try:
        hooks = subprocess.check_output(
            ["git", "-C", "/repo", "log", "--format=%H", "--grep=^verif hooks"], text=True).split()
    except Exception:
        hooks = []
    checks = []
    for pid in ALL:
        if pid not in CHECKS:
            continue
        cat, text, note, tech, ref = CHECKS[pid]
        checks.append({
            "property_id": pid,
            "quick_cmd": "./check %s --tier quick" % pid,
            "thorough_cmd": "./check %s --tier thorough" % pid,
            "evidence_file": "/verif/evidence/%s.json" % pid,
            "replay_cmd_template": "./check %s --replay {path}" % pid,
            "engine": "vcheck",
            "level_claimed": {"category": cat, "text": text, "design_ref": ref},
            "level_note": note,
            "technique": tech,
        })
    m = {
        "version": 1,
        "setup_cmd": "./setup.sh",
        "hooks": {
            "guard": "verif",
            "enable": "go build -tags verif (the harness module /verif replaces github.com/tsuna/gohbase with /repo, so "
                      "every check recompiles gohbase from /repo's working tree with the tag on)",
            "baseline_off_cmd": "cd /repo && GOFLAGS=-mod=mod GOPROXY=off GOSUMDB=off GOTOOLCHAIN=local "
                                "go test -vet=off -count=1 -timeout 25m ./...",
            "source_commits": hooks,
            "add_only": True,
        },
        "engines": [
            {"name": "vcheck", "path": "/verif/cmd/vcheck",
             "serves_properties": sorted(CHECKS),
             "kind_free_text": "driver: rebuilds harness+gohbase (-tags verif, -race where stated), runs each "
                               "property workload in child processes (case written to disk before it runs), collects "
                               "crash/race/oracle verdicts, matches known_findings.json, writes evidence"},
            {"name": "simhbase", "path": "/verif/sim",
             "serves_properties": [],
             "kind_free_text": "simulated HBase cluster speaking the real wire protocol over loopback TCP with an "
                               "independent framing/KeyValue/block-compression codec, fault scripts and a wire event log"},
        ],
        "checks": checks,
        "notes": "Runtime monitoring only: every verdict is 'held on the executions observed'. See DESIGN.md.",
        "not_applicable": [{"property_id": p, "reason": NOT_YET} for p in ALL if p not in CHECKS],
    }
    with open(os.path.join(HERE, "MANIFEST.json"), "w") as f:
        json.dump(m, f, indent=1)
        f.write("\n")

if __name__ == "__main__":
    main()

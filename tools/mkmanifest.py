#!/usr/bin/env python3
"""Generates /verif/MANIFEST.json from the table below (kept next to the checks so
that the manifest never drifts from what is built).  Usage: tools/mkmanifest.py"""
import json, os, subprocess

HERE = os.path.dirname(os.path.dirname(os.path.abspath(__file__)))

ALL = ["C%02d" % i for i in range(1, 21)]

# id -> (category, text, note, technique, design_ref)
CHECKS = {
    "C09": ("exploration",
            "Race-detector builds of client + harness: up to 128 callers (gets, puts, batches, scans with 2 ms renewal) over up "
            "to 16 regions on up to 4 servers while an injector kills connections, takes regions offline, splits and moves "
            "them, sends abort exceptions and refuses dials every few milliseconds; ten log statements of the client act as "
            "preemption points with seeded delays, so that every run realises a different interleaving (its signature is "
            "recorded). After a fault-free phase and a request into every region: no caller blocked, no cached region "
            "unavailable, no region holding a dead connection. Panics/fatal errors are caught by the child-process crash "
            "monitor, data races in gohbase frames by the race log. The same race-detector build then runs one slice of the "
            "quick workloads of twelve other checks (Close at chosen points, blocked writes, cancellations, renewing "
            "scanners, connection bursts); only race reports and crashes count there.",
            "A clean race log covers only accesses that ran concurrently in these runs; schedule coverage is reported as "
            "distinct interleaving signatures, not as a fraction of the space.",
            "Go race detector + crash monitor + quiescence invariants under stress with fault injection", "DESIGN.md §2 C09"),
    "C13": ("exploration",
            "The client is driven into each named wait state (ZooKeeper blocked, meta lookup unanswered, probe unanswered, dial "
            "hanging, 4.096 s retry back-off, 4.096 s lookup back-off, send queue busy with a stalled server and full socket, "
            "request written and server silent), the state is confirmed from simulator/connection events, then the context "
            "is cancelled or its deadline falls inside the state, for every entry point (single call, unbatched call, batch, "
            "batch whose waiting call has its own context, scanner). All natural exits are 120 s away; the call must return a "
            "context error within 3 s; a scheduler-stall canary guards the bound.",
            "3 s vs 120 s separation; states not listed are not judged. Four narrowly keyed known findings (blocked conn.Write, "
            "batch back-off with a per-call context).",
            "runtime bounded-response monitor over confirmed wait states", "DESIGN.md §2 C13"),
    "C19": ("exploration",
            "With 1..16 callers running gets, puts, batches, scans and CacheRegions, Close is issued at points chosen through real "
            "preemption points of the client (its log statements, the dialer, held server replies): right before a dial, during "
            "a dial (150 ms or 1.5 s long), during the region probe, during a meta lookup, during a short and during a 4 s retry back-off, while an establisher backs off, with ZooKeeper failing or blocked, with a "
            "scanner open or abandoned, after a connection lost all its regions, during batches, and at seeded instants. Afterwards: Close returned, calls in flight and later calls "
            "end with the client-closed error, every connection the client dialled has been closed by it, no dial, no ZooKeeper "
            "lookup and no successful write on any connection (client-side observation) once all calls returned, no client goroutine in the process, second Close harmless.",
            "Quiescence = all calls returned + 60 ms; activity is observed for 150 ms after it. Interleavings are those the hook "
            "points and seeds realise.",
            "runtime quiescence monitor (connection census, wire log, goroutine census) with hook-forced schedules", "DESIGN.md §2 C19"),
    "C20": ("exploration",
            "Bursts of up to 128 concurrent first users over up to 32 regions on 1..3 servers, later discoveries, with and "
            "without connection failures (reset, abort exception, server-class exception on one action, refused first dial, read error), slow replies with call deadlines, merges found by a cache miss, a call answered not-serving five times in a row, "
            "a dialer slower than the lookup timeout that ignores its context, CacheRegions before or during the burst, a server registered under a dotted name. A client-side dial log on one "
            "clock shows for every address: one dial in runs without connection failures (including an in-place split of a region "
            "that is alone on its server), at the moment of every dial no other region client for that address in the client's "
            "connection cache, and at most one open connection per address at quiescence.",
            "'Declared dead' is observed in the client's own connection cache at dial time. Seeded sample of bursts.",
            "runtime event-log checker over the client-side dial/close log", "DESIGN.md §2 C20"),
    "C04": ("fault_enumeration",
            "(a) Every exception class the client classifies plus near-misses is injected at every position (response header, "
            "multi action, multi region) for gets, puts and batches in a scenario where only the right reaction succeeds (the "
            "region really moved and the old server keeps answering with that class; the connection stays poisoned; a "
            "non-retryable error would be hidden by a retry). (b) Seeded fault scripts of 1..6 cluster events (move, split, "
            "merge, offline, opening, too busy, call queue, throttling, abort, reset, server down, meta move, application "
            "exception, unknown table) interleaved with requests; afterwards every request must have completed, real errors "
            "unchanged and unretried, and a final round must execute on the current owners. (c) Admin calls across master "
            "hold / restart / move.",
            "Bounded progress (45-60 s with 2 s lookup and 1 s read timeouts) stands in for 'eventually'. All single faults "
            "and classes are enumerated; longer scripts are sampled.",
            "runtime fault-script execution with outcome + final-executor oracle on the simulated cluster", "DESIGN.md §2 C04"),
    "C17": ("exploration",
            "The real back-off function is run for every step of the schedule (quick up to 8.192 s, thorough to 33.192 s) and "
            "compared with an independently computed schedule (elapsed >= step, next value, cancellation ends a wait). On the "
            "wire, 11 persistent-failure scenarios x {single call, batch} record client-side timestamps of consecutive attempts "
            "(request writes, establishment dials and probes, meta lookups, ZooKeeper lookups) and check gap_j >= w_(j-free), "
            "free = 2 only for connection-level failures of a request; the maximum attempts per second is reported.",
            "Only lower bounds on time are judged (load cannot falsify them); a wait that is too long is not detected. Quick "
            "observes 6 s per scenario (8-9 attempts), thorough 70 s.",
            "runtime timing monitor (lower bounds only) on client-side event timestamps", "DESIGN.md §2 C17"),
    "C03": ("fault_enumeration",
            "The real region client (reader goroutine, batching writer, callers sending unbatched calls) runs over an "
            "instrumented connection; for seeded workloads every fault position is enumerated: the k-th Read / Write / "
            "SetReadDeadline / SetWriteDeadline fails (error, partial write, short read + EOF, timeout), an external Close at "
            "every operation count, a k-th write that blocks (server stopped reading) while the connection fails by read "
            "timeout / Close / bad frame / fatal exception, and a server that sends an undecodable frame, an unknown call id, a server-fatal "
            "exception, closes mid-frame or falls silent at the r-th request, each under plain / slow-writer / slow-reader "
            "schedules. Counting receivers on every result channel observe 0, 1 or 2 deliveries; post-failure submissions must "
            "be refused with the connection-level class; a goroutine census must find nothing left of the failed client.",
            "Positions beyond the dry-run operation count and interleavings not realised by the three schedules are not judged. "
            "Quiescence bound 4 s (read timeout 300 ms).",
            "runtime fault-position enumeration with exactly-once accounting and goroutine census", "DESIGN.md §2 C03"),
    "C18": ("exploration",
            "Request/response sequences on one connection (bare region client and full client) bring the outstanding count to "
            "zero and back through unbatched calls, batches, responses forced to be read before the sender returns from Write, "
            "calls cancelled while unanswered or inside the connection's Write, responses released together, one of n answered, and a request sent while the deadline-clearing call "
            "of the previous response is in progress. The connection wrapper records every Write and SetReadDeadline in order: "
            "at each quiescent point the deadline must get cleared and the connection must be open; while requests are held, "
            "the last request write must be followed by a deadline update covering write time + timeout (order-based, waited "
            "for, never sampled at a guessed moment). Real-time cases: idle for 5 timeouts then a request on "
            "the same connection (no re-dial), and a silent server detected not before one timeout.",
            "Deadline comparisons use the values the client passed to SetReadDeadline. Upper bound on detection is 2 s beyond "
            "the timeout.",
            "runtime invariant monitor on hooked connection state at quiescent points", "DESIGN.md §2 C18"),
    "C02": ("exploration",
            "Histories of up to 64 concurrent callers issuing gets, mutations and batches carry a unique id per operation; "
            "the simulated servers derive every response from the request itself, delay responses at random (reordering them "
            "on each connection), permute results inside multi-responses, mix cellblock / protobuf / compressed payloads, "
            "zero-cell results and per-action / per-region exceptions. Each caller's result is compared with what the server "
            "produced for its id. A second workload records put/get register histories and checks them with porcupine.",
            "Trusted: simulator derives payloads deterministically from the op id; the simulator is linearizable by "
            "construction. Interleavings are whatever the scheduler and the random delays realise.",
            "runtime payload-identity monitor on unambiguous histories + porcupine linearizability check", "DESIGN.md §2 C02"),
    "C05": ("exploration",
            "Every kind of call with random option combinations, nil/empty qualifiers, values below and above the compression "
            "chunk, alone and in batches, is sent through the real client; the simulated servers decode every byte with an "
            "independent framing / KeyValue / block-compression codec and the decoded operation is compared field by field "
            "with the specification the workload kept (filters: random trees over every filter and comparator class, the wire side "
            "opened by class name and printed field by field). Configurations cover codec none/snappy, TCP and wrapped (non-writev) "
            "connections, and up to 24 goroutines mixing batched and unbatched calls on one connection.",
            "Trusted: generated pb package for protobuf fields; independent codec in /verif/sim. Priority is judged only for "
            "frames of a single call (a multi-request has one header).",
            "runtime differential decoder on the wire + malformed-stream monitor", "DESIGN.md §2 C05"),
    "C07": ("fault_enumeration",
            "All single-fault placements for batches of 1..4 calls are enumerated (one call follows a script of one or two outcomes), "
            "then seeded batches whose calls follow per-call outcome scripts across retry rounds (success, fatal error, retry-later, "
            "region not serving, connection dead before/after execution, per-action server-fatal exception, an action left out of the response), with the table dropped between rounds and cancellation "
            "before sending, while waiting, during the back-off, as the reply is written and while the delivered results are being collected, and with a call's own context ending in four states; the result slice is judged slot by slot against the server-side log: own payload, own error, a "
            "delivered success or fatal error never replaced, no executed call with the placeholder, flag consistency, and no batch that ends "
            "only with its deadline although every request was answered.",
            "Outcome scripts and placements are drawn at random (dense for batches of <=12 calls), not exhaustively enumerated.",
            "runtime per-slot oracle joined with the server-side execution log under scripted faults", "DESIGN.md §2 C07"),
    "C12": ("fault_enumeration",
            "The same enumerated single-fault placements and scripted-fault batches (up to 40 calls; invalid entries - another table, another namespace, a duplicate, a scan / SkipBatch call / check-and-put - at every position) judged on the server-side log "
            "only: nothing is sent for an invalid batch, actions execute only on the owning region, calls of a region are first "
            "presented in batch order and re-sent subsets keep batch order, and no call arrives again after its success or "
            "fatal error was delivered.",
            "A response counts as received when the server wrote the full frame. Random placement of faults.",
            "runtime offline checker over the recorded wire log (ordering, at-most-once after delivery)", "DESIGN.md §2 C12"),
    "C01": ("exploration",
            "(1) The real cache lookup used for routing is compared with brute-force containment for every layout of up to "
            "3 boundaries over all keys of length <=2 from {00 , : a ff}, every subset/first-touch order of its regions "
            "next to regions of prefix-named and namespaced tables, 7 probe tables x 31 keys (exhaustive small scope). (2) "
            "The real client runs all request kinds and batches against simulated clusters with hostile table names and "
            "boundary-adjacent keys; the simulated servers judge every executed action (region name and server must own "
            "the row) and meta lookups are counted per first touch (exactly one per new region, none for cached keys); a "
            "concurrent phase (8 callers) asserts no misrouting and no lookup for keys of regions resolved before it; some "
            "clusters are warmed with CacheRegions first (then no lookup at all). (3) Tables whose hbase:meta lacks the row "
            "of one region: keys in the hole are looked up again and again and never sent to a neighbouring region.",
            "Trusted: simulated hbase:meta answering semantically, brute-force containment. Static layouts, sequential "
            "requests; keys/layouts outside the enumerated scope and random sample are not judged.",
            "runtime differential oracle (exhaustive small scope) + wire-level monitor on a simulated cluster", "DESIGN.md §2 C01"),
    "C06": ("exploration",
            "Thousands of generated scans (forward/reversed, every kind of range bound, 1..5 regions, partial results on/off, "
            "cellblock / protobuf / compressed results) run through the real client against simulated servers that cut the "
            "stream at random: rows per response, partial fragments inside and across responses, complete rows flagged "
            "partial, heartbeats, late region-end, early more_results=false. The returned sequence is compared with a model "
            "computed from the case alone (rows, order, cells, fragments concatenating to rows). In addition a small scope is "
            "enumerated: 3 rows x 2 cells, 3 layouts, 9 range shapes, both directions, partials on/off, every chunk script of "
            "length 3 over 6 response shapes x 2 x 2 flags (exhaustive in the thorough tier, 1/8 sample in quick).",
            "Trusted: simulator scan semantics (DESIGN.md §7). Keys with eight consecutive 0xff excluded as documented. "
            "Seeded sample; chunkings not drawn are not judged.",
            "runtime reference-model monitor over generated scans and server chunkings", "DESIGN.md §2 C06"),
    "C14": ("fault_enumeration",
            "A 4-row scan over 2 regions is ended in each of 7 ways at every point (j = 0..5 Next calls, r = 1..6 requests; enumerated), "
            "and the scans of C06 are ended at a drawn point in every way a scan can end (exhausted, Close after j calls, "
            "cancellation between fetches, cancellation with the r-th request unanswered, non-retryable and retryable RPC "
            "error on the r-th request, the response to the r-th request lost, server-declared end at the r-th response - after which no further request may be sent), with and without renewal, slow consumers and held close acknowledgements. A trace "
            "automaton judges the Next sequence, Close is timed and repeated, and the simulated servers' scanner table is "
            "checked for conservation (every opened region scanner exhausted or explicitly closed) and for renewals after the end.",
            "Ending points are sampled per scan (j, r drawn), not enumerated for every scan. One inherent protocol limit is "
            "a known finding.",
            "runtime trace-automaton + conservation monitor over fault-injected scans", "DESIGN.md §2 C14"),
    "C08": ("exploration",
            "The real location cache (guarded export of the client's key->region cache, same code path as region "
            "discovery) is driven with put/remove histories in lock-step with a brute-force interval model; after every "
            "operation contents, returned overlaps, the replaced flag, dead marks and pairwise non-overlap of the real "
            "contents are compared. Exhaustive for all histories up to length 3 (thorough 4) over a 3-point lattice, "
            "seeded random histories of up to 30 operations beyond.",
            "Trusted: the interval model (20 lines). Ties (equal id, different name) are judged only by the invariant. "
            "Histories outside the enumerated scope and the random sample are not judged.",
            "runtime lock-step reference-model monitor over exhaustive small-scope + random histories", "DESIGN.md §2 C08"),
    "C10": ("exploration",
            "Generated mutations of every kind and map shape with boundary lengths and timestamps are serialised by the "
            "real client into cellblocks and into protobuf; an independent KeyValue decoder and the client's own decoder "
            "read the bytes back and both encodings are normalised to cell sets and compared with each other and with "
            "the input (byte counts included).",
            "Trusted: the independent KeyValue codec in /verif/sim/kv.go and HBase's delete-type mapping. Seeded sample "
            "of the input space, boundary-biased; not exhaustive.",
            "runtime differential oracle (independent decoder + round trip) over generated inputs", "DESIGN.md §2 C10"),
    "C11": ("exploration",
            "Millions of structure-aware malformed inputs (every length/count/index field set to boundary values, "
            "truncations, bit flips, splices, random bytes, inconsistent but well-formed protobufs) are fed to the real "
            "decoders and to the real connection reader's receive step for outstanding get/mutate/scan/multi calls, with "
            "and without compression, and to the region-info parser followed by insertion into the location cache. "
            "Monitors: recover() with cap==len inputs (panics and over-reads), an allocation meter (attacker-chosen "
            "counts), a bounded wait (reader blocked on a double delivery), child-process crash monitor for fatal errors. Client "
            "level: the real client against a simulated server answering with decodable but hostile content (empty partial "
            "results, short counter values, missing fields, inconsistent scan flags, hostile hbase:meta rows); a panic in the "
            "caller's goroutine or a hang is the violation.",
            "Held on the generated inputs only. Frame size itself (up to 4 GiB announced) is not bounded by the client "
            "and not judged. A missing result in a multi-response (caller keeps waiting) is not judged here.",
            "runtime crash/alloc/hang monitors over structure-aware mutational inputs", "DESIGN.md §2 C11"),
    "C15": ("exploration",
            "Payloads of boundary sizes around the 218421-byte chunk, given as several buffers, are compressed by the "
            "client and decoded by an independent Hadoop block-stream reader (structure checked) and by the client; "
            "conforming multi-block streams written by the independent writer are decoded by the client; every "
            "truncation and single-byte corruption of small streams and sampled ones of large streams must give an error "
            "or the original bytes. Two inherent format limits are recorded as known findings.",
            "Trusted: github.com/golang/snappy block codec and the framing re-implemented in /verif/sim/blockcodec.go.",
            "runtime differential oracle + corruption/truncation enumeration", "DESIGN.md §2 C15"),
    "C16": ("exploration",
            "The real comparator is executed on every ordered pair of an exhaustively enumerated small-scope set of "
            "well-formed region names (prefix tables, namespaces, commas and bytes around ',' in start keys, ids of "
            "unequal length), on all triples of a subset, on all search-key/name pairs and on seeded random long "
            "names, and compared with the tuple order of the components the names were built from. Exhaustive inside "
            "the scope, sampled outside it.",
            "Trusted: bytes.Compare as tuple oracle; names are built, never parsed. Names outside the enumerated "
            "scope and the random sample are not judged.",
            "runtime differential oracle over exhaustive small-scope enumeration of inputs", "DESIGN.md §2 C16"),
}

NOT_YET = "check not built yet in this revision of /verif (work in progress; see DESIGN.md for the planned monitor)"

def main():
    try:
        hooks = subprocess.check_output(
            ["git", "-C", "/repo", "log", "--format=%H", "--grep=^verif"], text=True).split()
    except Exception:
        hooks = []
    checks = []
    for pid in ALL:
        if pid not in CHECKS:
            continue
        cat, text, note, tech, ref = CHECKS[pid]
        checks.append({
            "property_id": pid,
            "quick_cmd": "./check %s --tier quick" % pid,
            "thorough_cmd": "./check %s --tier thorough" % pid,
            "evidence_file": "/verif/evidence/%s.json" % pid,
            "replay_cmd_template": "./check %s --replay {path}" % pid,
            "engine": "vcheck",
            "level_claimed": {"category": cat, "text": text, "design_ref": ref},
            "level_note": note,
            "technique": tech,
        })
    m = {
        "version": 1,
        "setup_cmd": "./setup.sh",
        "hooks": {
            "guard": "verif",
            "enable": "go build -tags verif (the harness module /verif replaces github.com/tsuna/gohbase with /repo, so "
                      "every check recompiles gohbase from /repo's working tree with the tag on)",
            "baseline_off_cmd": "cd /repo && GOFLAGS=-mod=mod GOPROXY=off GOSUMDB=off GOTOOLCHAIN=local "
                                "go test -vet=off -count=1 -timeout 25m ./...",
            "source_commits": hooks,
            "add_only": True,
        },
        "engines": [
            {"name": "vcheck", "path": "/verif/cmd/vcheck",
             "serves_properties": sorted(CHECKS),
             "kind_free_text": "driver: rebuilds harness+gohbase (-tags verif, -race where stated), runs each "
                               "property workload in child processes (case written to disk before it runs), collects "
                               "crash/race/oracle verdicts, matches known_findings.json, writes evidence"},
            {"name": "simhbase", "path": "/verif/sim",
             "serves_properties": [],
             "kind_free_text": "simulated HBase cluster speaking the real wire protocol over loopback TCP with an "
                               "independent framing/KeyValue/block-compression codec, fault scripts and a wire event log"},
        ],
        "checks": checks,
        "notes": "Runtime monitoring only: every verdict is 'held on the executions observed'. See DESIGN.md.",
        "not_applicable": [{"property_id": p, "reason": NOT_YET} for p in ALL if p not in CHECKS],
    }
    with open(os.path.join(HERE, "MANIFEST.json"), "w") as f:
        json.dump(m, f, indent=1)
        f.write("\n")

if __name__ == "__main__":
    main()

#!/bin/bash
# usage: tools/run_all.sh <tier> [seed...]  — runs every check once per seed, prints one line per run
cd "$(dirname "$0")/.." || exit 1
tier=${1:-quick}; shift
seeds=${*:-1}
for s in $seeds; do
  for p in C01 C02 C03 C04 C05 C06 C07 C08 C09 C10 C11 C12 C13 C14 C15 C16 C17 C18 C19 C20; do
    out=$(VERIF_SEED=$s ./check $p --tier $tier 2>&1)
    rc=$?
    echo "rc=$rc $(echo "$out" | grep "^$p tier" | cut -c1-200)"
    if [ $rc -ne 0 ] || echo "$out" | grep -q "VIOLATION\|INCONCLUSIVE\|HARNESS"; then
      echo "$out" | grep -A6 "VIOLATION\|INCONCLUSIVE\|HARNESS" | cut -c1-400 | head -60
    fi
  done
done

#!/bin/bash
# usage: tools/seed_verify.sh <worktree> <pkg> <demo_test_file(rel to worktree)> [test-run-regex]
# Confirms in the scratch worktree: suite passes with the patch, demo fails with it, demo passes without it.
set -u
export GOFLAGS=-mod=mod GOPROXY=off GOSUMDB=off GOTOOLCHAIN=local
wt=$1; pkg=$2; demo=$3; rx=${4:-.}
cd "$wt" || exit 2
[ -f MUTATION/patch.diff ] || { echo "no MUTATION/patch.diff"; exit 2; }
# normalise: start from a clean tree + demo file
cp "$demo" /tmp/seed_demo.$$ 
git checkout -q -- . ; git clean -qfd -e MUTATION >/dev/null
mkdir -p "$(dirname "$demo")"; cp /tmp/seed_demo.$$ "$demo"; rm -f /tmp/seed_demo.$$
echo "== without patch: demo"
timeout 300 go test -vet=off -count=1 -run "$rx" "$pkg" 2>&1 | tail -3
git apply MUTATION/patch.diff || { echo "patch does not apply"; exit 2; }
echo "== with patch: build + demo"
go build ./... || exit 2
timeout 300 go test -vet=off -count=1 -run "$rx" "$pkg" 2>&1 | grep -v "^=== " | tail -8
echo "== with patch: existing suite (demo file moved away)"
mv "$demo" /tmp/seed_demo.$$
timeout 600 go test -vet=off -count=1 ./... 2>&1 | grep -v "no test files\|ERROR\|WARN" | tail -6
mv /tmp/seed_demo.$$ "$demo"
git diff --stat -- . ':!*_test.go' | tail -3

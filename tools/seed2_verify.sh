#!/bin/bash
# usage: tools/seed2_verify.sh <worktree> <MUTATIONdir name> <target pkg dir rel (e.g. . or region)> [test-run-regex]
# Round-2 layout: <wt>/<MUTATIONn>/{patch.diff,demo_test.go.txt}; the worktree itself is clean.
set -u
export GOFLAGS=-mod=mod GOPROXY=off GOSUMDB=off GOTOOLCHAIN=local
wt=$1; m=$2; dir=$3; rx=${4:-.}
cd "$wt" || exit 2
git checkout -q -- . ; git clean -qfd -e 'MUTATION*' >/dev/null
demo=$dir/zz_seed_demo_test.go
cp $m/demo_test.go.txt $demo
echo "== without patch: demo"; timeout 300 go test -vet=off -count=1 -run "$rx" ./$dir 2>&1 | tail -2
git apply $m/patch.diff || { echo "patch does not apply"; exit 2; }
echo "== with patch: demo"; go build ./... || exit 2
timeout 300 go test -vet=off -count=1 -run "$rx" ./$dir 2>&1 | grep -v "^=== \|^    " | tail -5
rm -f $demo
echo "== with patch: existing suite"
pk=$(go list ./... | grep -v MUTATION)
timeout 600 go test -vet=off -count=1 $pk 2>&1 | grep -v "no test files\|ERROR\|WARN" | tail -5
git diff --stat | tail -2
git checkout -q -- .

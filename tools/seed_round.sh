#!/bin/bash
# usage: tools/seed_round.sh <worktree> <<EOF
#   MUTATION1 <pkg dir> <test regex> <check id> [<check id>...]
#   ...
# EOF
# For every line: re-verifies the seeded change in the worktree (demo green without / red with the
# patch, existing suite green with it), then applies it to /repo, runs the given checks (quick,
# seed 1) and reverts. Prints one compact block per change.
wt=$1
cd "$(dirname "$0")/.." || exit 1
while read -r m dir rx checks; do
  [ -z "$m" ] && continue
  echo "##### $m ($dir $rx)"
  v=$(tools/seed2_verify.sh "$wt" "$m" "$dir" "$rx" 2>&1 | grep -v "INFO\|WARN")
  without=$(echo "$v" | sed -n '/== without patch/,/== with patch: demo/p' | grep -c "^ok")
  with=$(echo "$v" | sed -n '/== with patch: demo/,/== with patch: existing/p' | grep -c "^FAIL\|^--- FAIL\|panic:")
  suite_bad=$(echo "$v" | sed -n '/== with patch: existing/,$p' | grep -c "^FAIL\|^--- FAIL")
  echo "verify: demo-passes-without=$without demo-fails-with=$with suite-failures-with=$suite_bad"
  for c in $checks; do
    tools/seed_try.sh "$wt/$m/patch.diff" "$c" 2>&1 | grep "^rc=\|finding=\|BUILD\|HARNESS\|does not apply" | cut -c1-230 | head -4
  done
done

#!/bin/bash
# usage: tools/seed_try.sh <patch.diff> <ID> [ID...]   (env TIER=quick|thorough, SEEDS="1 2")
# Applies a seeded change to /repo, runs the given checks, and always reverts /repo afterwards.
set -u
patch=$(realpath "$1"); shift
cd "$(dirname "$0")/.." || exit 1
git -C /repo diff --quiet || { echo "/repo has local changes; refusing"; exit 2; }
git -C /repo apply "$patch" || { echo "patch does not apply to /repo"; exit 2; }
trap 'git -C /repo checkout -q -- .; git -C /repo status --short | grep -v "^??" ' EXIT
for id in "$@"; do
  for s in ${SEEDS:-1}; do
    out=$(VERIF_SEED=$s ./check $id --tier ${TIER:-quick} 2>&1); rc=$?
    echo "rc=$rc seed=$s $(echo "$out" | grep "^$id tier" | cut -c1-160)"
    echo "$out" | grep -A2 "^VIOLATION" | grep -v "^--" | cut -c1-330 | head -9
    echo "$out" | grep "BUILD FAILED\|HARNESS" | head -3
  done
done
rm -rf replays

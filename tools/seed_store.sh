#!/bin/bash
# usage: tools/seed_store.sh <worktree> <name> <property> <demo file rel> <needs> <detected_by> <ran>
set -u
wt=$1; name=$2; prop=$3; demo=$4; needs=$5; by=$6; ran=$7
d=/verif/seeded/$name; mkdir -p $d
cp $wt/MUTATION/patch.diff $d/patch.diff
cp $wt/$demo $d/$(basename $demo).txt
[ -f $wt/MUTATION/README.md ] && cp $wt/MUTATION/README.md $d/README.md
python3 - "$d" "$prop" "$demo" "$needs" "$by" "$ran" <<'PY'
import json,sys,subprocess
d,prop,demo,needs,by,ran=sys.argv[1:7]
json.dump({"property":prop,"breaks":prop,"base_commit":subprocess.check_output(["git","-C","/repo","rev-parse","HEAD"],text=True).strip(),
 "demo_file":demo+" (stored as "+demo.split("/")[-1]+".txt so that it is not compiled here)","needs_to_manifest":needs,"detected_by":by,"what_was_run":ran},
 open(d+"/meta.json","w"),indent=1)
PY
ls $d

#!/bin/bash
# usage: tools/seed2_store.sh <worktree> <MUTATIONn> <name> <property> <target dir> <needs> <detected_by>
set -u
wt=$1; m=$2; name=$3; prop=$4; dir=$5; needs=$6; by=$7
d=/verif/seeded/$name; mkdir -p $d
cp $wt/$m/patch.diff $d/patch.diff
cp $wt/$m/demo_test.go.txt $d/demo_test.go.txt
[ -f $wt/$m/README.md ] && cp $wt/$m/README.md $d/README.md
python3 - "$d" "$prop" "$dir" "$needs" "$by" <<'PY'
import json,sys,subprocess
d,prop,dir_,needs,by=sys.argv[1:6]
json.dump({"property":prop,"breaks":prop,"base_commit":subprocess.check_output(["git","-C","/repo","rev-parse","HEAD"],text=True).strip(),
 "demo_file":"demo_test.go.txt (copy to <worktree>/"+dir_+"/zz_seed_demo_test.go)","needs_to_manifest":needs,"detected_by":by,
 "what_was_run":"tools/seed2_verify.sh <worktree> <MUTATIONn> "+dir_+" <test> (demo passes without the patch, fails with it; existing suite passes with it); tools/seed_try.sh patch.diff <checks> (quick tier, seed 1)"},
 open(d+"/meta.json","w"),indent=1)
PY

import json,os,sys
# usage: seed_briefs.py <round> ; writes /tmp/r<round>-<agent>.txt
RND=sys.argv[1]
props={}
for l in open('/verif/properties.jsonl'):
    p=json.loads(l); props[p['id']]=(p['title'], p['statement'])
taken={}
for d in sorted(os.listdir('/verif/seeded')):
    m=json.load(open(f'/verif/seeded/{d}/meta.json'))
    name=d.split('-',1)[1] if d[0]=='C' else d.split('-',2)[2]
    taken.setdefault(m['property'],[]).append(name.replace('-',' '))
def text(pid):
    t,s=props[pid]
    s=s.replace(' in the orderly way of C03',' in the orderly way (every outstanding request completed exactly once with a connection-level error)').replace(' (as in C03/C04)','')
    return f'"{t}. {s}"'
plan={
 'A':[('C15',1),('C16',1),('C01',1)],
 'B':[('C10',1),('C08',1),('C18',1)],
 'C':[('C02',1),('C13',1),('C01',1)],
 'D':[('C08',1),('C10',1),('C16',1)],
}
for ag,items in plan.items():
    n=sum(k for _,k in items)
    L=[]
    L.append(f"You are working in a scratch git worktree of the Go library tsuna/gohbase (a pure-Go HBase client) at /tmp/w{RND}-{ag}. Work ONLY inside /tmp/w{RND}-{ag}. Do NOT read, list or touch /verif or /repo. Do NOT use `git stash` - use `git apply` / `git apply -R` / `git checkout -- <file>`. Shell env for every go command: `export GOFLAGS=-mod=mod GOPROXY=off GOSUMDB=off GOTOOLCHAIN=local` (no network; deps are cached).\n")
    L.append("PROPERTIES (each must always hold):")
    for pid,_ in items: L.append(f"- {pid}: {text(pid)}")
    L.append("")
    idx=1; mapping=[]
    for pid,k in items:
        for _ in range(k):
            mapping.append(f"MUTATION{idx} breaks {pid}"); idx+=1
    L.append(f"TASK: produce {n} INDEPENDENT small, realistic changes (each 1-15 lines; the kind of thing that slips through review as a refactor, optimisation, cleanup, 'robustness' or 'compatibility' tweak) to the NON-test library source: " + "; ".join(mapping) + ". Two mutations for the same property must use different mechanisms (different functions). Each must (a) compile, (b) pass the whole existing suite `go test -vet=off -count=1 ./...` (3 runs) and, if it touches concurrency, `go test -race -vet=off -count=1 . ./region` (3 runs), (c) need a specific input / layout / fault position / interleaving / option value / sequence of calls to manifest - not fail for every use. Prefer SUBTLE changes: ones that only show for an unusual but legal value (0, empty-but-non-nil, maximum, a byte such as 0x00/0xff/','), for the second use of an object, for the second region/server/connection, after a particular earlier event, or under one particular ordering of two goroutines.")
    L.append("")
    L.append("ALREADY TAKEN by earlier rounds - do not reuse these ideas (names are descriptive); find mechanisms that are NOT in the list, preferably in functions the list never touches:")
    for pid,_ in items: L.append(f"- {pid}: " + "; ".join(taken.get(pid,[])))
    L.append("")
    L.append("Where to look: rpc.go (SendRPC, SendBatch, findClients, waitForCompletion, handleResultError, clientDown, lookupRegion, lookupAllRegions, findRegion, findAllRegions/CacheRegions, getRegionFromCache, createRegionSearchKey, establishRegion, reestablishRegion, isRegionEstablished/probeKey, metaLookup, zkLookup, sleepAndIncreaseBackoff), caches.go, client.go (options, Close, Get/Put/.../CheckAndPut/Increment helpers), admin_client.go, scanner.go, region/client.go (Dial, processRPCs, receiveRPCs, receive, send, trySend, QueueRPC, QueueBatch, fail, failSentRPCs, registerRPC/unregisterRPC, inFlightUp/Down, exceptionToError and the exception tables, marshalProto, sendHello, buffer pools), region/multi.go, region/info.go (ParseRegionInfo, infoFromCell, Compare, MarkAvailable/Unavailable/Dead, NewInfo, String), region/compressor.go, compression/snappy, hrpc/*.go (option encoders, ToProto, SerializeCellBlocks, DeserializeCellBlocks, cellFromCellBlock, NewScanRange/NewGet/NewPut/... constructors), zk/client.go. Do not modify verif_export.go files or add build-tagged files. Recent commits whose messages start with 'fix:' added guards (git log --oneline | head -40): weakening ONE of those guards in a way the suite does not notice is a fair mutation too, as long as it is not in the taken list.")
    L.append("")
    L.append("For EACH mutation write a demonstration Go test in the relevant package (may use unexported identifiers, the mocks under test/mock - see rpc_test.go, mockrc_test.go, scanner_test.go, caches_test.go, region/client_test.go, region/multi_test.go - net.Pipe with a tiny fake server speaking HBase RPC framing, conn wrappers, its own timeouts; decode frames/cellblocks independently where needed; use -race if the demonstration is a race report) that FAILS (or times out by its own timeout) with that change and PASSES on unchanged code.")
    L.append("")
    L.append(f"DELIVERABLES: directories /tmp/w{RND}-{ag}/MUTATION1 ... MUTATION{n}, each containing: patch.diff (git diff of the library change only; must `git apply` on the clean commit), demo_test.go.txt (say in README which directory to copy it to and whether -race is needed), README.md (property broken, the change, why existing tests miss it, what it needs to manifest, exact commands). Leave the worktree CLEAN at the end (only MUTATION* directories untracked).")
    L.append("VERIFY for each: suite passes with patch (3 runs); demo fails with patch; demo passes without.")
    L.append("ALSO: if you notice behaviour of the UNCHANGED code that itself seems to violate one of these properties (a real latent defect, not one of your mutations), describe it briefly at the end of your report under 'Suspected existing defects', with the exact input / fault / interleaving that would show it (confirm with a throwaway probe if cheap, then delete the probe). Known and not needed again: conn.Write has no deadline (stuck sender cannot be cancelled); a per-call context is not watched during SendBatch's back-off sleep; scanner leaked when the response to an open request is lost or the context ends meanwhile; rows skipped when a scan continuation is retried after a lost response (no next_call_seq); the 4-byte frame length is trusted; priority is dropped for calls that travel in a multi; a Delete with an empty non-nil qualifier map deletes the row; reversed scans need a start row and skip rows with more than eight trailing 0xff right below a region boundary; admin client Close; a final empty partial fragment yields an empty row; cells alias the response buffer.")
    L.append("Report briefly per mutation: property, file/function, the change, the manifestation condition, the demo test name and target directory.")
    open(f'/tmp/r{RND}-{ag}.txt','w').write("\n".join(L))
print("ok")
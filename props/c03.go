package props

import (
	"context"
	"fmt"
	"google.golang.org/protobuf/proto"
	"log/slog"
	"math/rand"
	"net"
	"runtime"
	"strings"
	"sync"
	"sync/atomic"
	"time"

	"verif/faultconn"
	"verif/fw"
	"verif/sim"

	"github.com/tsuna/gohbase/hrpc"
	"github.com/tsuna/gohbase/region"
)

// C03 — a failing connection completes every outstanding request exactly once.
//
// The real region client (connection reader, batching writer, callers sending
// unbatched calls) runs over an instrumented connection on which the k-th
// operation of each kind is made to fail, or against a server that misbehaves
// at the r-th request. Every call's result channel is drained by a counting
// receiver, so that 0 and 2 deliveries are observed, not inferred.

type c03Call struct {
	Mode      string // unbatched | batchable | batch | unbatched-closing (Close() runs while the call is being serialised)
	N         int    // calls in a batch
	Cancelled bool   // its context is already cancelled
}

type c03Case struct {
	Seed     int64
	Queue    int
	Flush    time.Duration
	Calls    []c03Call
	Fault    *faultconn.Fault
	Server   string // "" | garbage | garbage-header | fatal-exc | fatal-exc-kill | silence | close-mid-frame | unknown-call-id | fatal-action-exc
	ServerAt int    // which request (1-based)
	ExtClose int    // >0: call Close() on the region client when the connection has seen this many operations
	Slow     string // "" | writer | reader | fail (failure handler slowed at its log statements)
	// BlockThen: what ends a connection whose Fault is a blocked write (the
	// server stopped reading): "silence" (first request never answered: read
	// timeout), "close" (Close() 3ms after the write blocked), or a server
	// failure kind for the first request, released once the write has blocked.
	BlockThen string
	// CancelLate: the contexts of the unbatched calls end 5 ms after they were
	// submitted (requests written, replies delayed by 15 ms): a fatal answer
	// then arrives for a call that has already given up
	CancelLate bool
}

func (c c03Case) String() string {
	var cs []string
	for _, x := range c.Calls {
		s := x.Mode
		if x.Mode == "batch" {
			s += fmt.Sprint(x.N)
		}
		if x.Cancelled {
			s += "(cancelled)"
		}
		cs = append(cs, s)
	}
	s := fmt.Sprintf("queue=%d flush=%v calls=%v fault=%v server=%s@%d extclose@%d slow=%s", c.Queue, c.Flush, cs, c.Fault, c.Server, c.ServerAt, c.ExtClose, c.Slow)
	if c.BlockThen != "" {
		s += " then=" + c.BlockThen
	}
	if c.CancelLate {
		s += " unbatched-calls-give-up-before-the-answer"
	}
	return s
}

// closingGet is an unbatched Get whose serialisation runs Close() of the region
// client to completion: the call was accepted by a live connection and is
// registered only after the failure handler has swept the table of sent calls.
type closingGet struct {
	*hrpc.Get
	hook func()
}

func (g *closingGet) ToProto() proto.Message {
	g.hook()
	return g.Get.ToProto()
}

type c03Tracked struct {
	call      hrpc.Call
	opid      string
	cancelled bool
	post      bool
	n         int32 // deliveries
	firstErr  atomic.Value
	gotMsg    int32
	submitted time.Time
	firstAt   int64 // ns since submit
}

func regionClientGoroutines() (n int, dump string) {
	buf := make([]byte, 1<<20)
	buf = buf[:runtime.Stack(buf, true)]
	for _, g := range strings.Split(string(buf), "\n\n") {
		if strings.Contains(g, "gohbase/region.(*client)") {
			n++
			dump += g + "\n\n"
		}
	}
	return
}

func runC03Case(c *fw.Ctx, id string, cs c03Case) {
	if n, _ := regionClientGoroutines(); n != 0 {
		// leftovers of an earlier case would blur the census
		time.Sleep(100 * time.Millisecond)
		if n, _ = regionClientGoroutines(); n != 0 {
			c.Inconclusive("census-dirty-at-start")
		}
	}
	if cs.Server != "" {
		c.Count("server_fault_cases", 1)
	}
	if cs.ExtClose > 0 {
		c.Count("external_close_cases", 1)
	}
	cl := sim.NewCluster(cs.Seed, 1)
	defer cl.Close()
	regs := cl.CreateTable("t", [][]byte{[]byte("m")}, nil)
	cl.EchoResults = true
	infos := []hrpc.RegionInfo{mkInfoNamed(regs[0]), mkInfoNamed(regs[1])} // shared by the calls, as the client's cache does
	var reqN int32
	var fatalConn int64
	var fatalCall uint32
	var fatalDone int32
	cl.OnAction = func(req *sim.Request, a *sim.Action) *sim.Exc {
		if atomic.LoadInt64(&fatalConn) == req.Conn.ID && atomic.LoadUint32(&fatalCall) == req.CallID {
			// the first or (every other case) the last action of the request
			last := a
			for _, ra := range req.Multi {
				if n := len(ra.Actions); n > 0 {
					last = ra.Actions[n-1]
				}
			}
			if (cs.Seed%2 == 0 || a == last) && atomic.CompareAndSwapInt32(&fatalDone, 0, 1) {
				return &sim.Exc{Class: sim.ExcStopped}
			}
		}
		return nil
	}
	cl.OnRegionAction = func(req *sim.Request, region []byte) *sim.Exc {
		// every other "last action" case: the request's first region is answered
		// with a region-level "not serving" ahead of the fatal action in a later one
		if cs.Seed%4 == 3 && len(req.Multi) > 1 && string(req.Multi[0].Region) == string(region) &&
			len(req.Multi[len(req.Multi)-1].Actions) > 0 && string(req.Multi[len(req.Multi)-1].Region) != string(region) && atomic.LoadInt64(&fatalConn) == req.Conn.ID && atomic.LoadUint32(&fatalCall) == req.CallID && atomic.LoadInt32(&fatalDone) == 0 {
			c.Count("fatal_action_after_region_level_exception", 1)
			return &sim.Exc{Class: sim.ExcNSRE}
		}
		return nil
	}
	blockHit := make(chan struct{})
	var blockOnce sync.Once
	defer blockOnce.Do(func() { close(blockHit) })
	srvKind, srvAt := cs.Server, cs.ServerAt
	if cs.BlockThen != "" && cs.BlockThen != "close" {
		srvKind, srvAt = cs.BlockThen, 1
	}
	cl.OnRequest = func(req *sim.Request) *sim.Reply {
		if srvKind == "" {
			return nil
		}
		if int(atomic.AddInt32(&reqN, 1)) != srvAt {
			return nil
		}
		var rep *sim.Reply
		switch srvKind {
		case "garbage":
			rep = &sim.Reply{Raw: sim.RawFrame([]byte{0xff, 0xff, 0xff, 0xff, 0xff, 0xff, 0x01, 0x02})}
		case "garbage-header":
			// a well-framed response whose 3-byte header is not a protobuf message
			rep = &sim.Reply{Raw: sim.RawFrame([]byte{3, 0xff, 0xff, 0xff})}
		case "fatal-exc":
			rep = &sim.Reply{Exc: &sim.Exc{Class: sim.ExcAborted}}
		case "fatal-exc-kill":
			rep = &sim.Reply{Exc: &sim.Exc{Class: sim.ExcStopped, KillConn: true}}
		case "silence":
			rep = &sim.Reply{Drop: true}
		case "close-mid-frame":
			rep = &sim.Reply{Raw: []byte{0, 0, 1, 0, 1, 2, 3}, KillConn: true}
		case "unknown-call-id":
			rep = &sim.Reply{Raw: sim.RawFrame([]byte{2, 0x08, 0x7f})}
		case "fatal-action-exc":
			// answered normally, except that its first action gets "regionserver
			// stopped" (inside the multi-response if it is a multi-request)
			nActs := 0
			if req.Single != nil {
				nActs = 1
			}
			for _, ra := range req.Multi {
				nActs += len(ra.Actions)
			}
			if nActs == 0 { // a multi-request emptied by cancellations: take the next request
				atomic.AddInt32(&reqN, -1)
				return nil
			}
			atomic.StoreInt64(&fatalConn, req.Conn.ID)
			atomic.StoreUint32(&fatalCall, req.CallID)
			return nil
		}
		if rep != nil && cs.BlockThen != "" && !rep.Drop {
			rep.Hold = blockHit // misbehave once the client's next write is stuck
		}
		if rep != nil && cs.CancelLate {
			rep.Delay = 15 * time.Millisecond
		}
		return rep
	}
	var fc *faultconn.Conn
	var rc hrpc.RegionClient
	fault := cs.Fault
	if fault != nil && fault.Mode == "block" {
		f := *fault
		f.OnHit = func() {
			blockOnce.Do(func() { close(blockHit) })
			c.Count("writes_blocked", 1)
			if cs.BlockThen == "close" {
				go func() { time.Sleep(3 * time.Millisecond); rc.Close() }()
			}
		}
		fault = &f
	}
	var opsSeen int32
	dial := cl.Dialer()
	dialer := func(ctx context.Context, network, addr string) (net.Conn, error) {
		conn, err := dial(ctx, network, addr)
		if err != nil {
			return nil, err
		}
		fc = faultconn.New(conn, fault)
		switch cs.Slow {
		case "writer":
			fc.BeforeWriteReturn = func(int) { time.Sleep(2 * time.Millisecond) }
		case "reader":
			fc.AfterRead = func(int) { time.Sleep(2 * time.Millisecond) }
		}
		if cs.ExtClose > 0 {
			prevW, prevR := fc.BeforeWriteReturn, fc.AfterRead
			tick := func() {
				if int(atomic.AddInt32(&opsSeen, 1)) == cs.ExtClose {
					go rc.Close()
				}
			}
			fc.BeforeWriteReturn = func(n int) {
				if prevW != nil {
					prevW(n)
				}
				tick()
			}
			fc.AfterRead = func(n int) {
				if prevR != nil {
					prevR(n)
				}
				tick()
			}
		}
		return fc, nil
	}
	readTimeout := 300 * time.Millisecond
	// a bad frame, a fatal exception or a connection closed by the server must
	// fail the connection when it is read, not when the read timeout expires
	// later: those cases run with a read timeout beyond the quiescence bound
	immediate := cs.BlockThen == "" && cs.Fault == nil && cs.ExtClose == 0 && cs.Server != "" && cs.Server != "silence"
	if immediate {
		readTimeout = 30 * time.Second // beyond every bound below (4 s for the calls + the 10 s failure watchdog)
		c.Count("immediate_detection_cases", 1)
	}
	logger := quietLogger
	if cs.Slow == "fail" {
		// the failure handler is slowed down at its two log statements (before it
		// signals the goroutines, and after it took the table of sent calls)
		logger = slog.New(&hookHandler{f: func(msg string) {
			if msg == "error occured, closing region client" || msg == "failing awaiting RPCs" {
				time.Sleep(2 * time.Millisecond)
			}
		}})
	}
	rc = region.NewClient("rs0:16020", region.RegionClient, cs.Queue, cs.Flush, "root", readTimeout, nil, dialer, logger)
	dctx, dcancel := context.WithTimeout(context.Background(), 2*time.Second)
	dialErr := rc.Dial(dctx)
	dcancel()

	var tracked []*c03Tracked
	stop := make(chan struct{})
	var drains sync.WaitGroup
	opn := 0
	track := func(ctx context.Context, skip bool, cancelled, post bool) *c03Tracked {
		opn++
		opid := fmt.Sprintf("%s%s-%d", sim.OpIDPrefix, id, opn)
		row := []byte{byte('a' + (opn*7)%26), byte('0' + opn%10)} // consecutive calls alternate between the two regions
		var call hrpc.Call
		opts := []func(hrpc.Call) error{}
		if skip {
			opts = append(opts, hrpc.SkipBatch())
		}
		if opn%2 == 0 {
			call, _ = hrpc.NewGet(ctx, []byte("t"), row, append(opts, hrpc.Families(map[string][]string{"echo": {opid}}))...)
		} else {
			call, _ = hrpc.NewPut(ctx, []byte("t"), row, map[string]map[string][]byte{"f": {opid: []byte("v")}}, opts...)
		}
		if regs[0].Contains(row) {
			call.SetRegion(infos[0])
		} else {
			call.SetRegion(infos[1])
		}
		t := &c03Tracked{call: call, opid: opid, cancelled: cancelled, post: post, submitted: time.Now()}
		tracked = append(tracked, t)
		drains.Add(1)
		go func() {
			defer drains.Done()
			for {
				select {
				case res := <-call.ResultChan():
					if atomic.AddInt32(&t.n, 1) == 1 {
						atomic.StoreInt64(&t.firstAt, int64(time.Since(t.submitted)))
						if res.Error != nil {
							t.firstErr.Store(res.Error)
						}
						if res.Msg != nil {
							atomic.StoreInt32(&t.gotMsg, 1)
						}
					}
				case <-stop:
					return
				}
			}
		}()
		return t
	}
	live := context.Background()
	dead, cancelDead := context.WithCancel(context.Background())
	cancelDead()
	late, cancelLate := context.WithCancel(context.Background())
	defer cancelLate()
	var submitters sync.WaitGroup
	submit := func(x c03Call, post bool) {
		ctx := live
		if x.Cancelled {
			ctx = dead
		}
		switch x.Mode {
		case "unbatched-closing":
			opn++
			opid := fmt.Sprintf("%s%s-%d", sim.OpIDPrefix, id, opn)
			g, _ := hrpc.NewGet(ctx, []byte("t"), []byte("a0"), hrpc.SkipBatch(), hrpc.Families(map[string][]string{"echo": {opid}}))
			g.SetRegion(mkInfoNamed(regs[0]))
			var once sync.Once
			call := &closingGet{Get: g, hook: func() { once.Do(func() { within(2*time.Second, rc.Close); c.Count("closed_while_serialising", 1) }) }}
			t := &c03Tracked{call: call, opid: opid, cancelled: x.Cancelled, post: post, submitted: time.Now()}
			tracked = append(tracked, t)
			drains.Add(1)
			go func() {
				defer drains.Done()
				for {
					select {
					case res := <-call.ResultChan():
						if atomic.AddInt32(&t.n, 1) == 1 {
							atomic.StoreInt64(&t.firstAt, int64(time.Since(t.submitted)))
							if res.Error != nil {
								t.firstErr.Store(res.Error)
							}
						}
					case <-stop:
						return
					}
				}
			}()
			submitters.Add(1)
			go func() { defer submitters.Done(); rc.QueueRPC(call) }()
		case "unbatched", "batchable":
			cc := x.Cancelled
			if cs.CancelLate && x.Mode == "unbatched" && !x.Cancelled && !post {
				ctx, cc = late, true // gives up after its request was written
			}
			t := track(ctx, x.Mode == "unbatched", cc, post)
			submitters.Add(1)
			go func() { defer submitters.Done(); rc.QueueRPC(t.call) }()
		case "batch":
			var calls []hrpc.Call
			for i := 0; i < x.N; i++ {
				// inside a live batch some calls may carry a cancelled context
				cctx, cc := ctx, x.Cancelled
				if !x.Cancelled && i%5 == 4 {
					cctx, cc = dead, true
				}
				calls = append(calls, track(cctx, false, cc, post).call)
			}
			submitters.Add(1)
			go func() { defer submitters.Done(); rc.QueueBatch(ctx, calls) }()
		}
	}
	if cs.CancelLate {
		time.AfterFunc(5*time.Millisecond, cancelLate)
	}
	for _, x := range cs.Calls {
		submit(x, false)
		if cs.Seed%3 == 0 {
			time.Sleep(200 * time.Microsecond)
		}
	}
	// wait for quiescence: every live call delivered, or the bound
	waitAll := func(sel func(*c03Tracked) bool, bound time.Duration) bool {
		deadline := time.Now().Add(bound)
		for {
			all := true
			for _, t := range tracked {
				if sel(t) && !t.cancelled && atomic.LoadInt32(&t.n) == 0 {
					all = false
				}
			}
			if all {
				return true
			}
			if time.Now().After(deadline) {
				return false
			}
			time.Sleep(2 * time.Millisecond)
		}
	}
	firstBound := 4 * time.Second
	if cs.BlockThen != "" {
		firstBound = time.Second // read timeout is 300ms; see below for the rest of the bound
	}
	allDone := waitAll(func(t *c03Tracked) bool { return !t.post }, firstBound)
	failed := rc.Dial(context.Background()) != nil
	if failed && !allDone && cs.BlockThen != "" {
		allDone = waitAll(func(t *c03Tracked) bool { return !t.post }, 3*time.Second)
	}
	if !failed && cs.BlockThen != "" && fc != nil && fc.Fired() {
		// the blocked write was the first request: nothing was outstanding, so
		// nothing could tell the client that the server is gone. The property
		// speaks about connections that fail: end this one with Close().
		c.Count("blocked_first_request_ended_by_close", 1)
		within(2*time.Second, rc.Close)
		allDone = waitAll(func(t *c03Tracked) bool { return !t.post }, 4*time.Second)
		failed = rc.Dial(context.Background()) != nil
	}
	// has the request the server misbehaves at arrived? Decided once, here: a
	// request nobody waits for (a batch of cancelled calls) may still arrive
	// while the rules below are evaluated, and then nothing has been waited for
	reached := int(atomic.LoadInt32(&reqN)) >= cs.ServerAt
	if !failed && cs.Server != "" && cs.BlockThen == "" && reached {
		// the last call may be completed by the reader a moment before the
		// failure handler runs (it is even slowed down in some schedules)
		// (how soon is C18's subject, not this property's: the bound is a generous
		// watchdog, a failure noticed late is only counted)
		t0 := time.Now()
		for i := 0; i < 1000 && !failed; i++ {
			time.Sleep(10 * time.Millisecond)
			failed = rc.Dial(context.Background()) != nil
		}
		if failed && time.Since(t0) > 2*time.Second {
			c.Count("connection_failures_noticed_after_more_than_2s", 1)
		}
	}
	fired := fc != nil && fc.Fired()
	if fired {
		c.Count("fault_fired_"+cs.Fault.Kind, 1)
		c.Count("fault_positions_fired", 1)
	} else if cs.Fault != nil {
		c.Count("fault_position_not_reached", 1)
	}
	if failed {
		c.Count("connections_failed", 1)
	} else if cs.Server != "" && cs.BlockThen == "" && reached && cs.Server != "unknown-call-id" &&
		(cs.Server != "fatal-action-exc" || atomic.LoadInt32(&fatalDone) == 1) {
		// the server misbehaved at a request that did arrive: the connection must
		// have been failed (and, below, refuse what is handed to it afterwards)
		evs := ""
		for _, e := range cl.Log.Snapshot() {
			if e.Kind == "exec-fault" || e.Kind == "reply" || e.Kind == "frame" || e.Kind == "fault" {
				evs += fmt.Sprintf(" [%s %s call=%d %s]", e.Kind, e.Method, e.CallID, e.Info)
			}
		}
		c.Violate(id, "conn:not-failed:"+cs.Server, fmt.Sprintf("the server answered request %d with %s but the connection is still in use: %s; server log:%s", cs.ServerAt, cs.Server, cs.String(), evs), cs.String())
	}
	// requests handed to a failed connection are refused at once
	postOK := true
	if failed {
		submit(c03Call{Mode: "unbatched"}, true)
		submit(c03Call{Mode: "batchable"}, true)
		submit(c03Call{Mode: "batch", N: 3}, true)
		postOK = waitAll(func(t *c03Tracked) bool { return t.post }, 2*time.Second)
	}
	submittersDone := within(2*time.Second, submitters.Wait)
	time.Sleep(15 * time.Millisecond) // let a second delivery (if any) land
	descr := cs.String()
	if dialErr != nil {
		descr += " dial-error=" + dialErr.Error()
	}
	hist := [3]int64{}
	for _, t := range tracked {
		n := atomic.LoadInt32(&t.n)
		c.Count("calls_accounted", 1)
		if n < 3 {
			hist[n]++
		}
		switch {
		case n >= 2:
			c.Violate(id, "conn:call-completed-twice", fmt.Sprintf("call %s received %d results: %s", t.opid, n, descr), cs.String())
		case n == 0 && !t.cancelled:
			f := "conn:call-never-completed"
			if fired && cs.Fault.Kind == faultconn.SetReadDeadline {
				f = "conn:call-never-completed:deadline-reset-failed-after-response"
			}
			if t.post {
				f = "conn:post-failure-call-not-refused"
			}
			c.Violate(id, f, fmt.Sprintf("call %s (post-failure=%v) has no result %v after submission; connection failed=%v fault fired=%v: %s",
				t.opid, t.post, time.Since(t.submitted).Round(time.Millisecond), failed, fired, descr), cs.String())
		case n == 1:
			err, _ := t.firstErr.Load().(error)
			if err != nil {
				switch err.(type) {
				case region.ServerError, region.RetryableError, region.NotServingRegionError:
				default:
					if !strings.HasPrefix(err.Error(), "HBase Java exception") {
						c.Violate(id, "conn:wrong-error-class", fmt.Sprintf("call %s completed with %T %v (not a connection-level error class): %s", t.opid, err, err, descr), cs.String())
					}
				}
				if t.post {
					if _, ok := err.(region.ServerError); !ok {
						c.Violate(id, "conn:post-failure-wrong-class", fmt.Sprintf("post-failure call %s got %T %v: %s", t.opid, err, err, descr), cs.String())
					}
				}
			} else if t.post {
				c.Violate(id, "conn:post-failure-call-succeeded", fmt.Sprintf("call %s handed to a failed connection succeeded: %s", t.opid, descr), cs.String())
			}
		}
	}
	c.Count("delivered_0_ctx_ended", hist[0])
	c.Count("delivered_1", hist[1])
	_ = allDone
	_ = postOK
	if !submittersDone {
		c.Violate(id, "conn:submitter-blocked", "a caller is still blocked in QueueRPC/QueueBatch 2s after the connection failed: "+descr, cs.String())
	}
	if failed {
		// goroutine census: nothing of this region client may remain
		var n int
		var dump string
		for i := 0; i < 100; i++ {
			if n, dump = regionClientGoroutines(); n == 0 {
				break
			}
			time.Sleep(10 * time.Millisecond)
		}
		c.Count("goroutine_census_checks", 1)
		if n != 0 {
			c.Violate(id, "conn:goroutines-left", fmt.Sprintf("%d goroutine(s) of the failed region client still alive after 1s: %s\n%s", n, descr, firstLines(dump, 30)), cs.String())
		}
	}
	if !within(2*time.Second, rc.Close) {
		c.Violate(id, "conn:close-blocked", "Close() of the region client did not return within 2s: "+descr, cs.String())
		if fc != nil {
			fc.Close() // let the stuck goroutines go so that later cases start clean
		}
	}
	close(stop)
	drains.Wait()
	for i := 0; i < 100; i++ {
		if n, _ := regionClientGoroutines(); n == 0 {
			break
		}
		time.Sleep(5 * time.Millisecond)
	}
}

func firstLines(s string, n int) string {
	l := strings.Split(s, "\n")
	if len(l) > n {
		l = l[:n]
	}
	return strings.Join(l, "\n")
}

// mkInfoNamed builds a region descriptor for a simulated region (same name).
func mkInfoNamed(r *sim.Region) hrpc.RegionInfo {
	return region.NewInfo(r.ID, nil, []byte(r.Table), r.Name, r.Start, r.Stop)
}

func genC03Workload(r *rand.Rand) []c03Call {
	var calls []c03Call
	for i, n := 0, 2+r.Intn(6); i < n; i++ {
		x := c03Call{Mode: []string{"unbatched", "batchable", "batch"}[r.Intn(3)], N: 1 + r.Intn(6), Cancelled: r.Intn(8) == 0}
		calls = append(calls, x)
	}
	return calls
}

func init() {
	fw.Register(&fw.Prop{
		ID:    "C03",
		Level: "fault_enumeration",
		Race:  false,
		Rule: "for seeded workloads (2..7 submissions: unbatched calls sent from caller goroutines, batchable single calls, " +
			"batches of 1..6, some with already-cancelled contexts) on one real region client: every fault position (kind in " +
			"{Read, Write, SetReadDeadline, SetWriteDeadline}, k = 1..N+2 where N is the dry-run operation count) x mode " +
			"{error, partial write, short read + EOF, timeout}, external Close at every operation count, a k-th write that blocks " +
			"(server stopped reading) until the connection is closed x {read timeout, Close, undecodable frame, fatal exception, close mid-frame}, and server-side " +
			"failures at the r-th request {undecodable frame, unknown call id, server-fatal exception with/without close, " +
			"connection closed mid-frame, silence until the read timeout}; each under schedules {plain, slow writer, slow " +
			"reader, slow failure handler}. distinct = (workload, fault position/mode, schedule); non-trivial = the fault fired or the server " +
			"misbehaved",
		Assumptions: []string{"quiescence = all live calls delivered or 4s elapsed (read timeout is 300ms); post-failure calls get 2s"},
		Plan: func(tier string) fw.Plan {
			if tier == "thorough" {
				return fw.Plan{Batches: 48, Parallel: 16, Timeout: 40 * time.Minute}
			}
			return fw.Plan{Batches: 16, Parallel: 16, Timeout: 8 * time.Minute}
		},
		Floors: func(tier string) map[string]int64 {
			return map[string]int64{"cases": 1500, "fault_positions_fired": 500, "fault_fired_Read": 30, "fault_fired_Write": 30,
				"fault_fired_SetReadDeadline": 30, "fault_fired_SetWriteDeadline": 3, "connections_failed": 700, "calls_accounted": 15000,
				"goroutine_census_checks": 300, "server_fault_cases": 40, "external_close_cases": 20, "writes_blocked": 50, "immediate_detection_cases": 30, "closed_while_serialising": 5}
		},
		Run: runC03,
	})
}

func runC03(c *fw.Ctx) {
	r := c.Rand("c03")
	nWorkloads := c.Pick(10, 60)
	caseN := 0
	run := func(cs c03Case, nontrivial bool) {
		caseN++
		if caseN%c.NBatches != c.Batch {
			return
		}
		id := fmt.Sprintf("k%d", caseN)
		c.Begin(id, cs.String())
		c.Eval(cs.String(), nontrivial)
		c.Count("cases", 1)
		runC03Case(c, id, cs)
		if caseN < 3*c.NBatches && caseN%c.NBatches == c.Batch && c.Batch == 0 {
			c.Sample(cs.String())
		}
	}
	for w := 0; w < nWorkloads; w++ {
		base := c03Case{Seed: c.Seed*100 + int64(w), Queue: []int{1, 2, 5, 100}[r.Intn(4)],
			Flush: []time.Duration{0, time.Millisecond, 3 * time.Millisecond}[r.Intn(3)], Calls: genC03Workload(r)}
		// dry-run bound on operation counts: each submission costs at most a
		// write, two deadline updates and a few reads
		maxK := map[string]int{faultconn.Read: 3 * len(base.Calls), faultconn.Write: len(base.Calls) + 3,
			faultconn.SetReadDeadline: 2*len(base.Calls) + 3, faultconn.SetWriteDeadline: 3}
		slows := []string{"", "writer", "reader", "fail"}
		if c.Quick() {
			slows = []string{"", []string{"writer", "reader", "fail"}[w%3]}
		}
		for _, slow := range slows {
			for kind, mk := range maxK {
				for k := 1; k <= mk; k++ {
					modes := []string{"error"}
					switch kind {
					case faultconn.Write:
						modes = []string{"error", "partial"}
					case faultconn.Read:
						modes = []string{"error", "partial", "timeout", "eof"}
					}
					for _, m := range modes {
						cs := base
						cs.Slow = slow
						cs.Fault = &faultconn.Fault{Kind: kind, K: k, Mode: m, Bytes: 1 + r.Intn(9)}
						run(cs, true)
					}
				}
			}
			for k := 1; k <= 2*len(base.Calls)+2; k += 1 + r.Intn(2) {
				cs := base
				cs.Slow = slow
				cs.ExtClose = k
				run(cs, true)
			}
			// the server stops reading: the k-th write blocks (after 0..n bytes)
			// until the connection is closed, while the connection fails for
			// another reason
			for k := 2; k <= maxK[faultconn.Write]; k++ {
				for _, then := range []string{"silence", "close", "garbage", "fatal-exc", "close-mid-frame"} {
					cs := base
					cs.Slow = slow
					cs.Fault = &faultconn.Fault{Kind: faultconn.Write, K: k, Mode: "block", Bytes: r.Intn(9)}
					cs.BlockThen = then
					run(cs, true)
				}
			}
			for _, sf := range []string{"garbage", "garbage-header", "fatal-exc", "fatal-exc-kill", "silence", "close-mid-frame", "unknown-call-id", "fatal-action-exc"} {
				for at := 1; at <= len(base.Calls); at += 1 + r.Intn(2) {
					cs := base
					cs.Slow = slow
					cs.Server, cs.ServerAt = sf, at
					run(cs, true)
					if sf == "fatal-exc" || sf == "fatal-exc-kill" {
						cs.CancelLate = true
						run(cs, true)
					}
				}
			}
		}
		run(base, false)
		// Close() while an unbatched call is being serialised, at every position of the workload
		for at := 0; at <= len(base.Calls); at++ {
			cs := base
			cs.Calls = append(append(append([]c03Call{}, base.Calls[:at]...), c03Call{Mode: "unbatched-closing"}), base.Calls[at:]...)
			run(cs, true)
		}
	}
}

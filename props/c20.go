package props

import (
	"context"
	"errors"
	"fmt"
	"log/slog"
	"math/rand"
	"net"
	"sort"
	"strings"
	"sync"
	"sync/atomic"
	"time"

	"verif/faultconn"
	"verif/fw"
	"verif/sim"

	"github.com/tsuna/gohbase"
	"github.com/tsuna/gohbase/hrpc"
)

// C20 — one connection per regionserver, shared by all its regions.
//
// The dialer wrapper logs, on one clock inside the client process, every dial
// (call, result) and the moment the client closes each connection. A dial to
// an address is justified only if every earlier connection to that address
// had already been closed by the client (= declared dead) when it started.

type dialRec struct {
	addr    string
	t       time.Time
	ok      atomic.Bool                    // set by the dialer, which runs in the client's goroutines
	conn    atomic.Pointer[faultconn.Conn] // likewise
	closedT atomic.Value                   // time.Time
	// cachedSameAddr is the number of region clients for this address in the
	// client's connection cache at the moment of the dial (the one being
	// dialled included); -1 if it could not be sampled
	cachedSameAddr int
}

type dialLog struct {
	mu   sync.Mutex
	recs []*dialRec
	// stillborn counts dial attempts whose context was already done when the dialer was called
	stillborn int
	// client, once set, lets the dialer look at the connection cache
	client atomic.Value // gohbase.Client
	// declaredDead[addr] = times at which the client removed the connection
	// to addr from its cache (its "removed region client" log statement)
	declaredDead map[string][]time.Time
	// deafDial, if set, says how long the n-th dial of addr takes regardless of
	// its context (a custom dialer that does not honour contexts); the
	// connection it returns ignores write deadlines, as an in-memory pipe may
	deafDial func(addr string, n int) time.Duration
}

// logger returns a logger that records when the client declares a connection dead.
func (dl *dialLog) logger() *slog.Logger {
	return slog.New(&hookHandler{fa: func(msg string, attrs map[string]string) {
		if msg != "removed region client" {
			return
		}
		// attrs["client"] renders as RegionClient{Addr: host:port}
		c := attrs["client"]
		if i := strings.Index(c, "Addr: "); i >= 0 {
			addr := strings.TrimSuffix(c[i+6:], "}")
			dl.mu.Lock()
			if dl.declaredDead == nil {
				dl.declaredDead = map[string][]time.Time{}
			}
			dl.declaredDead[addr] = append(dl.declaredDead[addr], time.Now())
			dl.mu.Unlock()
		}
	}})
}

type closeNotify struct {
	*faultconn.Conn
	rec  *dialRec
	deaf bool
}

func (c *closeNotify) SetWriteDeadline(t time.Time) error {
	if c.deaf {
		return nil
	}
	return c.Conn.SetWriteDeadline(t)
}

func (c *closeNotify) Close() error {
	c.rec.closedT.CompareAndSwap(nil, time.Now())
	return c.Conn.Close()
}

// trackingDialer wraps a cluster dialer with the client-side dial log.
func trackingDialer(cl *sim.Cluster, dl *dialLog, fault func(addr string, n int) *faultconn.Fault) func(ctx context.Context, network, addr string) (net.Conn, error) {
	dial := cl.Dialer()
	counts := map[string]int{}
	return func(ctx context.Context, network, addr string) (net.Conn, error) {
		if ctx.Err() != nil {
			// the client cancelled this attempt before it began (an establisher
			// working with the context of a region that has just been replaced):
			// nothing is sent to the server, so this is not a dial of that server
			dl.mu.Lock()
			dl.stillborn++
			dl.mu.Unlock()
			return nil, ctx.Err()
		}
		rec := &dialRec{addr: addr, t: time.Now(), cachedSameAddr: -1}
		if cl, _ := dl.client.Load().(gohbase.Client); cl != nil {
			rec.cachedSameAddr = 0
			for rc := range gohbase.VerifClients(cl) {
				if rc.Addr() == addr {
					rec.cachedSameAddr++
				}
			}
		}
		dl.mu.Lock()
		dl.recs = append(dl.recs, rec)
		counts[addr]++
		n := counts[addr]
		dl.mu.Unlock()
		deaf := false
		if dl.deafDial != nil {
			if d := dl.deafDial(addr, n); d > 0 {
				deaf = true
				time.Sleep(d)
				ctx = context.Background()
			}
		}
		conn, err := dial(ctx, network, addr)
		if err != nil {
			return nil, err
		}
		var f *faultconn.Fault
		if fault != nil {
			f = fault(addr, n)
		}
		fc := faultconn.New(conn, f)
		rec.conn.Store(fc) // the judges may run while establishers are still dialling
		rec.ok.Store(true)
		return &closeNotify{fc, rec, deaf}, nil
	}
}

// judge checks the dial log; quiescent says whether "at most one open
// connection per address" is to be asserted as well.
func (dl *dialLog) judge(c *fw.Ctx, id, descr string, faultFree, quiescent bool, cls ...*sim.Cluster) {
	if len(cls) > 0 {
		dl.judgeDropped(c, id, descr, cls[0])
	}
	dl.mu.Lock()
	c.Count("dial_attempts_cancelled_before_they_began", int64(dl.stillborn))
	recs := append([]*dialRec{}, dl.recs...)
	dead := map[string][]time.Time{}
	for a, l := range dl.declaredDead {
		dead[a] = append([]time.Time{}, l...)
	}
	dl.mu.Unlock()
	byAddr := map[string][]*dialRec{}
	for _, r := range recs {
		byAddr[r.addr] = append(byAddr[r.addr], r)
	}
	for addr, l := range byAddr {
		c.Count("addresses_checked", 1)
		c.Count(fmt.Sprintf("dials_per_address_%d", min(len(l), 5)), 1)
		if faultFree && len(l) != 1 {
			how := ""
			for i, r := range l {
				ct, _ := r.closedT.Load().(time.Time)
				cl := "open"
				if !ct.IsZero() {
					cl = fmt.Sprintf("closed after %v", ct.Sub(r.t).Round(10*time.Microsecond))
				}
				how += fmt.Sprintf(" [dial %d: +%v ok=%v cached-for-address=%d %s]", i+1, r.t.Sub(l[0].t).Round(10*time.Microsecond), r.ok.Load(), r.cachedSameAddr, cl)
			}
			c.Violate(id, "conn:dialled-more-than-once", fmt.Sprintf("%s was dialled %d times in a fault-free run:%s: %s", addr, len(l), how, descr), descr)
		}
		for i := 1; i < len(l); i++ {
			// connections to addr that succeeded before this dial, and how many
			// the client had removed from its cache (declared dead) by then
			made, declared := 0, 0
			for j := 0; j < i; j++ {
				if l[j].ok.Load() {
					made++
				}
			}
			for _, t := range dead[addr] {
				if !t.After(l[i].t) {
					declared++
				}
			}
			c.Count("redial_justifications_checked", int64(made))
			// direct observation at the moment of the dial: the cache must not
			// hold another region client for this address
			if l[i].cachedSameAddr > 1 {
				c.Violate(id, "conn:dial-while-another-connection-cached", fmt.Sprintf("dial #%d to %s started while the client's connection cache held %d region clients for that address: %s",
					i+1, addr, l[i].cachedSameAddr, descr), descr)
			}
			if declared >= made || l[i].cachedSameAddr >= 0 {
				continue
			}
			for j := 0; j < i; j++ {
				p := l[j]
				if !p.ok.Load() {
					continue // that dial failed: no connection came of it
				}
				ct, _ := p.closedT.Load().(time.Time)
				c.Count("redial_justifications_checked", 1)
				if ct.IsZero() || ct.After(l[i].t) {
					when := "still open"
					if !ct.IsZero() {
						when = fmt.Sprintf("closed %v later", ct.Sub(l[i].t).Round(10*time.Microsecond))
					}
					c.Violate(id, "conn:dial-while-previous-connection-healthy", fmt.Sprintf("dial #%d to %s started while connection #%d to it had not been declared dead by the client (%s): %s",
						i+1, addr, j+1, when, descr), descr)
				}
			}
		}
		if quiescent {
			open := 0
			for _, r := range l {
				if r.ok.Load() {
					if ct, _ := r.closedT.Load().(time.Time); ct.IsZero() {
						open++
					}
				}
			}
			c.Max("max_open_connections_per_address", int64(open))
			if open > 1 {
				c.Violate(id, "conn:several-open-connections", fmt.Sprintf("%d connections to %s are open at quiescence: %s", open, addr, descr), descr)
			}
		}
	}
}

// judgeDropped: a connection the client has closed (declared dead) must have
// experienced something: an operation on its client side failed, or the server
// side of it was killed or answered by an injected fault. A healthy connection
// is reused, never dropped.
func (dl *dialLog) judgeDropped(c *fw.Ctx, id, descr string, cl *sim.Cluster) {
	type dropRec struct {
		addr    string
		conn    *faultconn.Conn
		ok      bool
		closedT *atomic.Value
	}
	dl.mu.Lock()
	var recs []dropRec
	for _, r := range dl.recs {
		recs = append(recs, dropRec{r.addr, r.conn.Load(), r.ok.Load(), &r.closedT})
	}
	dl.mu.Unlock()
	evs := cl.Log.Snapshot()
	// (server, client's local address) -> server-side connection id; the local
	// address alone is ambiguous: the kernel may give connections to different
	// servers the same local port
	simConn := map[string]int64{}
	for _, e := range evs {
		if e.Kind == "accept" {
			simConn[e.Server+"|"+e.Info] = e.Conn
		}
	}
	for _, r := range recs {
		if !r.ok || r.conn == nil {
			continue
		}
		ct, _ := r.closedT.Load().(time.Time)
		if ct.IsZero() {
			continue
		}
		c.Count("closed_connections_checked", 1)
		faulty := false
		for _, e := range r.conn.Events() {
			if e.Err != "" && e.Kind != faultconn.Close {
				faulty = true
			}
		}
		if sid, ok := simConn[r.addr+"|"+r.conn.LocalAddr().String()]; ok {
			for _, e := range evs {
				if e.Conn == sid && (e.Kind == "conn-kill" || e.Kind == "fault") {
					faulty = true
				}
				// an answer that says the server itself is going away
				if e.Conn == sid && e.Kind == "exec-fault" && (strings.Contains(e.Info, sim.ExcStopped) || strings.Contains(e.Info, sim.ExcAborted)) {
					faulty = true
				}
			}
		} else {
			faulty = true // cannot be attributed: not judged
		}
		if !faulty {
			c.Violate(id, "conn:healthy-connection-dropped", fmt.Sprintf("the client closed its connection to %s (local %s) although no operation on it had failed and the server had neither killed it nor answered with a fault: %s",
				r.addr, r.conn.LocalAddr(), descr), descr)
		}
	}
}

// closedAfter returns a channel that is closed after d.
func closedAfter(d time.Duration) chan struct{} {
	ch := make(chan struct{})
	time.AfterFunc(d, func() { close(ch) })
	return ch
}

type c20Case struct {
	Seed    int64
	Servers int
	Regions int
	Users   int
	Later   int
	Fault   string // "" | reset | abort-exc | dial-fail-once | read-error | split-lonely | probe-opening | action-stopped | slow-reply-deadline | merge-by-miss | nsre-repeated | deaf-slow-dial
	Queue   int
	// Precache: "" | before | during - CacheRegions (every region of the table
	// discovered and connected at once by the client itself) before or during the burst
	Precache string
	// Dotted: one more server, registered in hbase:meta under the absolute form
	// of its name ("rs9.example.com.:16020"), hosts every third region
	Dotted bool
}

func (c c20Case) String() string {
	s := fmt.Sprintf("servers=%d regions=%d first-users=%d later=%d fault=%s queue=%d", c.Servers, c.Regions, c.Users, c.Later, c.Fault, c.Queue)
	if c.Precache != "" {
		s += " cache-regions=" + c.Precache
	}
	if c.Dotted {
		s += " dotted-server"
	}
	return s
}

func runC20Case(c *fw.Ctx, id string, cs c20Case) {
	r := rand.New(rand.NewSource(cs.Seed))
	cl := sim.NewCluster(cs.Seed, cs.Servers)
	defer cl.Close()
	var bounds [][]byte
	for i := 1; i < cs.Regions; i++ {
		bounds = append(bounds, []byte(fmt.Sprintf("%03d", i*(1000/cs.Regions))))
	}
	var assign func(i int) string
	if cs.Fault == "split-lonely" {
		// one region alone on rs1 (no meta, no sibling); everything else on rs0
		assign = func(i int) string {
			if i == cs.Regions-1 {
				return "rs1:16020"
			}
			return "rs0:16020"
		}
	}
	regs := cl.CreateTable("t", bounds, assign)
	if cs.Dotted {
		cl.AddServer("rs9.example.com.:16020")
		for i, rg := range regs {
			if i%3 == 1 {
				cl.MoveRegion(rg.Name, "rs9.example.com.:16020")
			}
		}
	}
	cl.EchoResults = true
	dl := &dialLog{}
	var faultOnce, nsreOnce int32
	lookupTimeout := 3 * time.Second
	readErrAt := 3 + r.Intn(6) // drawn here: the dialer runs in the client's goroutines
	var fault func(addr string, n int) *faultconn.Fault
	switch cs.Fault {
	case "read-error":
		fault = func(addr string, n int) *faultconn.Fault {
			if n == 1 && addr != "rs0:16020" {
				return &faultconn.Fault{Kind: faultconn.Read, K: readErrAt, Mode: "error"}
			}
			return nil
		}
	case "dial-fail-once":
		cl.DialFault = func(addr string, n int) error {
			if n == 1 && addr != "rs0:16020" {
				return errors.New("connection refused (injected)")
			}
			return nil
		}
	case "probe-opening":
		// a region is still opening when it is first probed; its server already
		// serves other regions of this client: nothing is wrong with the connection
		var probes sync.Map
		cl.OnRequest = func(req *sim.Request) *sim.Reply {
			if req.Single != nil && req.Single.Kind() == "exists" && req.Single.OpID == "" && string(req.Single.Region) != string(sim.MetaRegionName) {
				if _, seen := probes.LoadOrStore(string(req.Single.Region), true); !seen && sim.Hash32(string(req.Single.Region))%2 == 0 {
					return &sim.Reply{Exc: &sim.Exc{Class: sim.ExcRegionOpening}}
				}
			}
			return nil
		}
	case "action-stopped":
		// one action of a multi-request is answered with a server-fatal class
		// ("regionserver stopped") while the server keeps the connection open;
		// every other "last action" case answers the request's first region
		// with a region-level "not serving" ahead of it
		cl.OnRegionAction = func(req *sim.Request, region []byte) *sim.Exc {
			if cs.Seed%4 == 3 && len(req.Multi) > 1 && string(req.Multi[0].Region) == string(region) &&
				len(req.Multi[len(req.Multi)-1].Actions) > 0 && atomic.LoadInt32(&faultOnce) == 0 && atomic.CompareAndSwapInt32(&nsreOnce, 0, 1) {
				return &sim.Exc{Class: sim.ExcNSRE}
			}
			return nil
		}
		cl.OnAction = func(req *sim.Request, a *sim.Action) *sim.Exc {
			if req.Multi != nil && a.OpID != "" {
				// the first or (every other case) the last action of a multi-request
				last := a
				for _, ra := range req.Multi {
					if n := len(ra.Actions); n > 0 {
						last = ra.Actions[n-1]
					}
				}
				if (cs.Seed%2 == 0 || a == last) && atomic.CompareAndSwapInt32(&faultOnce, 0, 1) {
					return &sim.Exc{Class: sim.ExcStopped}
				}
			}
			return nil
		}
	case "nsre-repeated":
		// one operation is answered "not serving" five times in a row although
		// the region is online all the time (probes and hbase:meta say so)
		var victim atomic.Value
		var n int32
		cl.OnAction = func(req *sim.Request, a *sim.Action) *sim.Exc {
			if a.OpID == "" {
				return nil
			}
			victim.CompareAndSwap(nil, a.OpID)
			if victim.Load().(string) == a.OpID && atomic.AddInt32(&n, 1) <= 5 {
				return &sim.Exc{Class: sim.ExcNSRE}
			}
			return nil
		}
	case "deaf-slow-dial":
		// the first dial of every other server takes longer than the lookup
		// timeout and cannot be interrupted
		lookupTimeout = 400 * time.Millisecond
		dl.deafDial = func(addr string, n int) time.Duration {
			if n == 1 && addr != "rs0:16020" {
				return 600 * time.Millisecond
			}
			return 0
		}
	case "abort-exc":
		cl.OnRequest = func(req *sim.Request) *sim.Reply {
			if req.Multi != nil && req.Server != "rs0:16020" && atomic.CompareAndSwapInt32(&faultOnce, 0, 1) {
				return &sim.Reply{Exc: &sim.Exc{Class: sim.ExcAborted, KillConn: true}}
			}
			return nil
		}
	}
	client := gohbase.VerifNewClient(cl.ZK(), gohbase.RegionDialer(trackingDialer(cl, dl, fault)), gohbase.Logger(dl.logger()),
		gohbase.RpcQueueSize(cs.Queue), gohbase.FlushInterval(time.Millisecond), gohbase.RegionLookupTimeout(lookupTimeout), gohbase.RegionReadTimeout(3*time.Second))
	// the construction of a connection object takes a moment (seeded, up to 3 ms)
	// at the place where the client runs it - inside its connection cache - so
	// that other first users and connection failures fall into that window
	var nrMu sync.Mutex
	nr := rand.New(rand.NewSource(cs.Seed ^ 0x9e3779b9))
	gohbase.VerifOnNewRegionClient(client, func(addr string) {
		nrMu.Lock()
		d := nr.Intn(3000)
		nrMu.Unlock()
		if d > 500 {
			time.Sleep(time.Duration(d) * time.Microsecond)
		}
	})
	dl.client.Store(client)
	defer func() { within(3*time.Second, client.Close) }()
	var opn int32
	do := func(key string) error {
		ctx, cancel := context.WithTimeout(context.Background(), 30*time.Second)
		defer cancel()
		n := atomic.AddInt32(&opn, 1)
		opid := fmt.Sprintf("%s%s-%d", sim.OpIDPrefix, id, n)
		g, _ := hrpc.NewGetStr(ctx, "t", key, hrpc.Families(map[string][]string{"echo": {opid}}))
		if n%3 == 0 { // a batch over this key and its neighbours
			k2 := fmt.Sprintf("%03d", (int(n)*37)%1000)
			g2, _ := hrpc.NewGetStr(ctx, "t", k2, hrpc.Families(map[string][]string{"echo": {opid + "b"}}))
			res, _ := client.SendBatch(ctx, []hrpc.Call{g, g2})
			for _, x := range res {
				if x.Error != nil {
					return x.Error
				}
			}
			return nil
		}
		_, err := client.Get(g)
		return err
	}
	// concurrent first users released by a barrier
	barrier := make(chan struct{})
	var wg sync.WaitGroup
	var failed int32
	precache := func() {
		var err error
		if !within(30*time.Second, func() { err = client.CacheRegions([]byte("t")) }) || err != nil {
			c.Violate(id, "conn:cache-regions-failed", fmt.Sprintf("CacheRegions: returned=%v err=%v: %s", err == nil, err, cs), cs)
		}
		c.Count("cache_regions_calls", 1)
	}
	switch cs.Precache {
	case "before":
		precache()
	case "during":
		wg.Add(1)
		go func() { defer wg.Done(); <-barrier; precache() }()
	}
	for u := 0; u < cs.Users; u++ {
		key := fmt.Sprintf("%03d", r.Intn(1000))
		if cs.Fault == "merge-by-miss" && len(bounds) > 0 {
			// only the first region is known before the merge
			hi := 1000 / cs.Regions
			key = fmt.Sprintf("%03d", r.Intn(hi))
		}
		wg.Add(1)
		go func() {
			defer wg.Done()
			<-barrier
			if err := do(key); err != nil {
				atomic.AddInt32(&failed, 1)
			}
		}()
	}
	close(barrier)
	if cs.Fault == "reset" {
		time.Sleep(time.Duration(r.Intn(3000)) * time.Microsecond)
		for _, a := range cl.ServerAddrs() {
			if a != "rs0:16020" || cs.Servers == 1 {
				cl.Server(a).KillConns("reset")
			}
		}
	}
	if !within(60*time.Second, wg.Wait) {
		c.Violate(id, "conn:first-users-stuck", "first users did not finish in 60s: "+cs.String(), cs)
		return
	}
	if cs.Fault == "slow-reply-deadline" {
		// one caller gives up (its own deadline) while the healthy server takes its
		// time to answer: that costs the caller its request, not everybody the connection
		var slowOnce int32
		cl.OnRequest = func(req *sim.Request) *sim.Reply {
			if req.Single != nil && strings.HasSuffix(req.Single.OpID, "-slow") && atomic.CompareAndSwapInt32(&slowOnce, 0, 1) {
				return &sim.Reply{HoldDefault: closedAfter(150 * time.Millisecond)}
			}
			return nil
		}
		ctx, cancel := context.WithTimeout(context.Background(), 30*time.Millisecond)
		g, _ := hrpc.NewGetStr(ctx, "t", fmt.Sprintf("%03d", r.Intn(1000)), hrpc.SkipBatch(), hrpc.Families(map[string][]string{"echo": {sim.OpIDPrefix + id + "-slow"}}))
		_, err := client.Get(g)
		cancel()
		if err == nil {
			c.Count("slow_reply_arrived_in_time", 1)
		} else {
			c.Count("calls_given_up_on_a_slow_server", 1)
		}
		time.Sleep(160 * time.Millisecond)
	}
	if cs.Fault == "merge-by-miss" && len(regs) >= 2 {
		// the first two regions (same server) merge; the client learns of it through
		// a cache miss (a key of the second one, never used before), not through a failure
		if _, err := cl.MergeRegions(regs[0].Name, regs[1].Name, regs[0].Server); err == nil {
			lo, hi := 1000/cs.Regions, 2*1000/cs.Regions
			for i := 0; i < 3; i++ {
				if err := do(fmt.Sprintf("%03d", lo+r.Intn(hi-lo))); err != nil {
					atomic.AddInt32(&failed, 1)
				}
			}
			if err := do(fmt.Sprintf("%03d", r.Intn(lo))); err != nil {
				atomic.AddInt32(&failed, 1)
			}
			c.Count("merges_discovered_by_cache_miss", 1)
		}
	}
	if cs.Fault == "split-lonely" {
		// the lonely region splits in place: no connection fails, its daughters
		// must go on using the connection to rs1
		lonely := regs[len(regs)-1]
		at := append(append([]byte{}, lonely.Start...), '5')
		if _, err := cl.SplitRegion(lonely.Name, at, "rs1:16020", "rs1:16020"); err == nil {
			for _, k := range []string{string(lonely.Start) + "1", string(lonely.Start) + "7", string(lonely.Start) + "50"} {
				if err := do(k); err != nil {
					atomic.AddInt32(&failed, 1)
				}
			}
			c.Count("in_place_splits", 1)
		}
	}
	// regions discovered later must reuse the connection
	var keys []string
	for i := 0; i < cs.Later; i++ {
		keys = append(keys, fmt.Sprintf("%03d", r.Intn(1000)))
	}
	sort.Strings(keys)
	for _, k := range keys {
		if err := do(k); err != nil {
			atomic.AddInt32(&failed, 1)
		}
	}
	if n := atomic.LoadInt32(&failed); n > 0 {
		c.Violate(id, "conn:request-failed", fmt.Sprintf("%d request(s) failed: %s", n, cs), cs)
	}
	time.Sleep(5 * time.Millisecond)
	dl.judge(c, id, cs.String(), cs.Fault == "" || cs.Fault == "split-lonely" || cs.Fault == "probe-opening" || cs.Fault == "slow-reply-deadline" || cs.Fault == "merge-by-miss", true, cl)
	if cs.Fault == "probe-opening" {
		c.Count("probe_opening_runs", 1)
	}
	c.Count("first_user_bursts", 1)
	c.Max("max_concurrent_first_users", int64(cs.Users))
}

func init() {
	fw.Register(&fw.Prop{
		ID:    "C20",
		Level: "exploration",
		Rule: "seeded runs: 1..3 servers, 1..32 regions, 1..128 concurrent first users released by a barrier with random keys, " +
			"optionally CacheRegions (all regions connected at once) before or during the burst, then 0..20 later sequential discoveries; fault in {none, reset of all connections during the burst, abort exception " +
			"closing the connection, first dial refused, read error on the first connection, in-place split of a region that is " +
			"alone on its server, first probe of a region answered 'region opening' (in both no connection fails), server-class exception on one action (optionally after a region-level not-serving), " +
			"a slow reply outliving the call's deadline, a merge found by a cache miss, one call answered not-serving five times, a first dial slower than the lookup timeout that ignores its context}. The client-side dial log must show " +
			"one dial per address in fault-free runs, every re-dial only after all earlier connections to that address were closed " +
			"by the client, no connection closed by the client unless an operation on it failed or the server killed it / answered it with a fault, and at most one open connection per address at quiescence. distinct = configuration+seed; non-trivial " +
			"= more than one region or more than one first user",
		Assumptions: []string{"'declared dead' is observed as the client removing the connection from its cache (its log statement) or closing it, whichever the dial log shows first"},
		Plan: func(tier string) fw.Plan {
			if tier == "thorough" {
				return fw.Plan{Batches: 32, Parallel: 16, Timeout: 30 * time.Minute}
			}
			return fw.Plan{Batches: 8, Parallel: 8, Timeout: 6 * time.Minute}
		},
		Floors: func(tier string) map[string]int64 {
			return map[string]int64{"first_user_bursts": 600, "addresses_checked": 200, "redial_justifications_checked": 30, "fault_free_runs": 40, "in_place_splits": 40, "probe_opening_runs": 40, "cache_regions_calls": 150, "merges_discovered_by_cache_miss": 30, "calls_given_up_on_a_slow_server": 20}
		},
		Run: func(c *fw.Ctx) {
			r := c.Rand("c20")
			n := c.Pick(800, 8000) / c.NBatches
			for i := 0; i < n; i++ {
				cs := c20Case{Seed: r.Int63(), Servers: 1 + r.Intn(3), Regions: []int{1, 2, 4, 8, 16, 32}[r.Intn(6)],
					Users: []int{1, 2, 8, 32, 128}[r.Intn(5)], Later: r.Intn(21), Queue: []int{1, 5, 100}[r.Intn(3)],
					Fault:    []string{"", "", "reset", "abort-exc", "dial-fail-once", "read-error", "split-lonely", "probe-opening", "action-stopped", "slow-reply-deadline", "merge-by-miss", "nsre-repeated", "deaf-slow-dial"}[r.Intn(13)],
					Precache: []string{"", "", "before", "during"}[r.Intn(4)], Dotted: r.Intn(5) == 0}
				if cs.Fault == "merge-by-miss" {
					cs.Servers, cs.Dotted = 1, false
					if cs.Regions < 2 {
						cs.Regions = 2
					}
				}
				if cs.Fault == "split-lonely" {
					cs.Servers = 2 + r.Intn(2)
					if cs.Regions < 2 {
						cs.Regions = 2
					}
				}
				id := fmt.Sprintf("r%d-%d", c.Batch, i)
				c.Begin(id, cs.String())
				c.Eval(cs.String()+fmt.Sprint(cs.Seed), cs.Regions > 1 || cs.Users > 1)
				if cs.Fault == "" {
					c.Count("fault_free_runs", 1)
				}
				runC20Case(c, id, cs)
				if i == 0 {
					c.Sample(cs.String())
				}
			}
		},
	})
}

package props

import (
	"fmt"
	"sort"
	"time"

	"verif/fw"
	"verif/sim"
)

// C12 — a batch executes each call once, in per-region order, or not at all.

func init() {
	fw.Register(&fw.Prop{
		ID:    "C12",
		Level: "fault_enumeration",
		Rule: "seeded batches of 1..40 calls (get/put/delete/append/increment) over 1..5 regions on 1..3 servers, queue size " +
			"{1,2,5,100}; each call follows an outcome script across attempts over {ok, fatal, retry-later, region-not-serving, " +
			"connection dies before execution, connection dies after execution, per-action server-aborted exception}; invalid entries (other table, same table name in another namespace, duplicate call, " +
			"non-batchable call: scan, SkipBatch get, check-and-put) at every position; table dropped between rounds; cancellations. Judged on the server-side " +
			"log: nothing sent for invalid batches, executions only by the owning region, first presentation per region in " +
			"batch order, re-sent subsets in batch order, no arrival after a delivered success or fatal error. distinct = " +
			"outcome matrix + layout + invalid/trigger; non-trivial = at least one non-ok outcome, invalid entry or >1 region",
		Assumptions: []string{"a response counts as received by the client when the server wrote the whole frame without error"},
		Plan: func(tier string) fw.Plan {
			if tier == "thorough" {
				return fw.Plan{Batches: 32, Parallel: 16, Timeout: 40 * time.Minute}
			}
			return fw.Plan{Batches: 8, Parallel: 8, Timeout: 8 * time.Minute}
		},
		Floors: func(tier string) map[string]int64 {
			return map[string]int64{"batches": 250, "enumerated_single_fault_placements": 400, "actions_arrived": 2000, "region_order_checks": 400, "rejected_batches_no_frames": 30,
				"retries_after_retry": 100, "retries_after_nsre": 100, "retries_after_dead-before": 100, "retries_after_dead-after": 100, "retries_after_abort": 80,
				"multi_region_batches": 100}
		},
		Run: runC12,
	})
}

func runC12(c *fw.Ctx) {
	// all single-fault placements for batches of up to 4 calls
	for i, b := range enumBatchCases() {
		if i%c.NBatches != c.Batch {
			continue
		}
		id := fmt.Sprintf("e%d", i)
		if i%50 == 0 {
			c.Begin(id, b)
		}
		c.Eval("enum|"+b.matrix(), true)
		c.Count("batches", 1)
		c.Count("enumerated_single_fault_placements", 1)
		judgeC12(c, id, runBatchCase(b, id))
	}
	r := c.Rand("c12")
	n := c.Pick(400, 9600) / c.NBatches
	for i := 0; i < n; i++ {
		b := genBatchCase(r, 40)
		if b.Trigger == "cancel-backoff" || b.Trigger == "cancel-waiting" {
			b.Deadline = 8 * time.Second
		}
		id := fmt.Sprintf("b%d-%d", c.Batch, i)
		c.Begin(id, b)
		nontrivial := b.Invalid != "" || len(b.Bounds) > 0
		for _, cl := range b.Calls {
			if len(cl.Script) > 0 {
				nontrivial = true
			}
		}
		c.Eval(b.matrix(), nontrivial)
		c.Count("batches", 1)
		if len(b.Bounds) > 0 {
			c.Count("multi_region_batches", 1)
		}
		run := runBatchCase(b, id)
		judgeC12(c, id, run)
		if i == 1 {
			c.Sample(b.String())
		}
	}
}

func judgeC12(c *fw.Ctx, id string, run *batchRun) {
	b := run.Case
	if !run.Returned {
		c.Violate(id, "batch:stuck", "SendBatch did not return: "+b.String(), b)
		return
	}
	for _, e := range run.Events {
		switch e.Kind {
		case "misroute":
			c.Violate(id, "batch:misrouted", fmt.Sprintf("op %s row %q sent to region %q: %s", e.OpID, e.Row, e.Region, b), b)
		case "malformed":
			c.Violate(id, "batch:malformed", e.Info, b)
		}
	}
	if b.Invalid != "" {
		if len(run.Attempts) != 0 {
			var ops []string
			for op := range run.Attempts {
				ops = append(ops, op)
			}
			c.Violate(id, "batch:invalid-batch-was-sent:"+b.Invalid, fmt.Sprintf("batch with a %s entry at %d must be rejected as a whole, but %d calls reached a server: %s",
				b.Invalid, b.InvalidAt, len(ops), b), b)
		} else {
			c.Count("rejected_batches_no_frames", 1)
		}
		if run.AllOK {
			c.Violate(id, "batch:invalid-batch-reported-ok", "allOK=true for "+b.String(), b)
		}
		return
	}
	index := map[string]int{}
	for i, op := range run.OpIDs {
		index[op] = i
	}
	// first presentation per region, and per-frame order
	type key struct {
		region string
	}
	first := map[string][]*batchAttempt{}
	frames := map[string][]*batchAttempt{}
	for _, as := range run.Attempts {
		for _, a := range as {
			c.Count("actions_arrived", 1)
			if a.K == 0 {
				first[a.Region] = append(first[a.Region], a)
			}
			fk := fmt.Sprintf("%d/%d/%s", a.Conn, a.CallID, a.Region)
			frames[fk] = append(frames[fk], a)
		}
	}
	for region, l := range first {
		sort.Slice(l, func(i, j int) bool {
			if l[i].FrameSeq != l[j].FrameSeq {
				return l[i].FrameSeq < l[j].FrameSeq
			}
			return l[i].Pos < l[j].Pos
		})
		c.Count("region_order_checks", 1)
		for i := 1; i < len(l); i++ {
			if index[l[i].OpID] < index[l[i-1].OpID] {
				c.Violate(id, "batch:region-order", fmt.Sprintf("region %q: call #%d was first presented to the server after call #%d (frames %d/%d pos %d/%d): %s",
					region, index[l[i].OpID], index[l[i-1].OpID], l[i-1].FrameSeq, l[i].FrameSeq, l[i-1].Pos, l[i].Pos, b), b)
				break
			}
		}
	}
	for fk, l := range frames {
		sort.Slice(l, func(i, j int) bool { return l[i].Pos < l[j].Pos })
		for i := 1; i < len(l); i++ {
			if index[l[i].OpID] < index[l[i-1].OpID] {
				c.Violate(id, "batch:frame-order", fmt.Sprintf("multi-request %s lists call #%d before call #%d of the same region: %s",
					fk, index[l[i-1].OpID], index[l[i].OpID], b), b)
				break
			}
		}
	}
	// no arrival after a delivered final outcome
	for op, as := range run.Attempts {
		sort.Slice(as, func(i, j int) bool { return as[i].K < as[j].K })
		c.Count(fmt.Sprintf("executions_per_op_%d", min(run.execCount(op), 4)), 1)
		for k, a := range as {
			act := run.actual(a)
			final := act == "exec" || act == sim.ExcDoNotRetry
			if k+1 < len(as) {
				c.Count("retries_after_"+a.Decision, 1)
			}
			if final && run.delivered(a.Conn, a.CallID) && k+1 < len(as) {
				f := "batch:resent-after-success"
				if act != "exec" {
					f = "batch:resent-after-fatal-error"
				}
				c.Violate(id, f, fmt.Sprintf("call #%d (%s): attempt %d ended with %s and its response was delivered, yet it was sent again (%d attempts): %s",
					index[op], op, k, a.Decision, len(as), b), b)
				break
			}
		}
	}
}

package props

import (
	"bytes"
	"context"
	"fmt"
	"math/rand"
	"sort"
	"sync"
	"sync/atomic"
	"time"

	"verif/fw"
	"verif/sim"

	"github.com/tsuna/gohbase"
	"github.com/tsuna/gohbase/hrpc"
	"github.com/tsuna/gohbase/region"
)

// C01 — requests are routed to the region that owns the row key.
//
// (1) lookup monitor: the real location-cache lookup against brute-force
// containment, exhaustive over a small scope; (2) wire monitor: real client
// against the simulated cluster on static layouts, every executed operation is
// judged by the simulator (region name and server must own the row) and meta
// lookups are counted.

type c01Region struct {
	table       string
	start, stop []byte
	info        hrpc.RegionInfo
}

func mkInfo(table string, start, stop []byte, id uint64) hrpc.RegionInfo {
	var ns []byte
	tbl := []byte(table)
	if i := bytes.IndexByte(tbl, ':'); i >= 0 {
		ns, tbl = tbl[:i], tbl[i+1:]
	}
	return region.NewInfo(id, ns, tbl, sim.RegionName(table, start, id), start, stop)
}

func layoutRegions(table string, bounds [][]byte, id uint64) []c01Region {
	var out []c01Region
	all := append([][]byte{{}}, bounds...)
	for i, s := range all {
		var e []byte
		if i+1 < len(all) {
			e = all[i+1]
		}
		out = append(out, c01Region{table, s, e, mkInfo(table, s, e, id+uint64(i))})
	}
	return out
}

func (r c01Region) contains(table string, key []byte) bool {
	return r.table == table && bytes.Compare(r.start, key) <= 0 && (len(r.stop) == 0 || bytes.Compare(key, r.stop) < 0)
}

func keyClass(key []byte, regs []c01Region) string {
	for _, r := range regs {
		if len(r.start) > 0 && bytes.Equal(key, r.start) {
			return "key==boundary"
		}
	}
	switch {
	case len(key) == 0:
		return "empty-key"
	case bytes.IndexByte(key, ',') >= 0:
		return "comma-key"
	case bytes.IndexByte(key, 0) >= 0:
		return "nul-key"
	case bytes.IndexByte(key, 0xff) >= 0:
		return "ff-key"
	}
	return "plain-key"
}

func c01Lookup(c *fw.Ctx) {
	alpha := []byte{0x00, ',', ':', 'a', 0xff}
	keys := keysOver(alpha, 2) // 31 keys incl. empty
	bkeys := keys[1:]
	sort.Slice(bkeys, func(i, j int) bool { return bytes.Compare(bkeys[i], bkeys[j]) < 0 })
	others := []c01Region{}
	for _, t := range []string{"s", "tt", "t-", "ns:t"} {
		others = append(others, layoutRegions(t, [][]byte{[]byte("a")}, 50)...)
	}
	// ("ns_t", "ns0t": the shape of the cached "ns:t" with another byte where the
	// namespace separator is, sorting after / before it)
	probeTables := []string{"t", "tt", "s", "ns:t", "t-", "u", "ns:tt", "ns_t", "ns0t"}
	var lookups, hits, misses int64
	classes := map[string]int64{}
	var layouts int64
	check := func(bounds [][]byte, caseID string) {
		regs := layoutRegions("t", bounds, 100)
		nsub := 1 << uint(len(regs))
		for sub := 1; sub < nsub; sub++ {
			if (int(layouts)+sub)%c.NBatches != c.Batch {
				continue
			}
			cache := gohbase.VerifNewCache()
			var present []c01Region
			// first-touch order: rotate by sub so that different orders occur
			order := make([]int, 0, len(regs))
			for i := range regs {
				if sub&(1<<uint(i)) != 0 {
					order = append(order, i)
				}
			}
			if sub%2 == 0 {
				for i, j := 0, len(order)-1; i < j; i, j = i+1, j-1 {
					order[i], order[j] = order[j], order[i]
				}
			}
			all := append([]c01Region{}, others...)
			for _, i := range order {
				all = append(all, regs[i])
			}
			for k, r := range all {
				if k%2 == sub%2 {
					cache.Put(r.info)
					present = append(present, r)
				}
			}
			for _, r := range all {
				if !containsReg(present, r) {
					cache.Put(r.info)
					present = append(present, r)
				}
			}
			for _, tbl := range probeTables {
				for _, k := range keys {
					var want hrpc.RegionInfo
					for _, r := range present {
						if r.contains(tbl, k) {
							want = r.info
						}
					}
					var got hrpc.RegionInfo
					pnk, _ := guarded(func() { got = cache.Lookup([]byte(tbl), k) })
					lookups++
					if want != nil {
						hits++
					} else {
						misses++
					}
					if tbl == "t" {
						classes[keyClass(k, regs)]++
					}
					if pnk != nil {
						c.Violate(caseID, "lookup:panic", fmt.Sprintf("bounds=%q sub=%b table=%s key=%q: %v", bounds, sub, tbl, k, pnk), nil)
						continue
					}
					if got != want {
						c.Violate(caseID, "lookup:wrong-region", fmt.Sprintf("bounds=%q inserted=%b lookup(%s,%q) = %v, owner is %v", bounds, sub, tbl, k, got, want),
							map[string]any{"bounds": bounds, "subset": sub, "table": tbl, "key": k})
					}
				}
			}
		}
		layouts++
	}
	c.Begin("lookup-exhaustive", nil)
	maxB := 3
	var rec func(from int, cur [][]byte)
	rec = func(from int, cur [][]byte) {
		if len(cur) > 0 {
			check(cur, fmt.Sprintf("layout-%q", cur))
		}
		if len(cur) == maxB {
			return
		}
		for i := from; i < len(bkeys); i++ {
			rec(i+1, append(cur, bkeys[i]))
		}
	}
	check(nil, "layout-single")
	rec(0, nil)
	c.EvalDistinctN(lookups)
	c.Count("cache_lookups_checked", lookups)
	c.Count("cache_lookup_hits_expected", hits)
	c.Count("cache_lookup_misses_expected", misses)
	for k, v := range classes {
		c.Count("lookup_class_"+k, v)
	}
	c.Count("max_layouts_enumerated", layouts)
	c.Sample(map[string]any{"kind": "lookup", "boundaries": []string{"\x00", ",a", "a\xff"}, "probe_tables": probeTables, "keys": len(keys)})
}

func containsReg(l []c01Region, r c01Region) bool {
	for _, x := range l {
		if x.info == r.info {
			return true
		}
	}
	return false
}

var c01Tables = []string{"t", "t1", "t-", "t.", "t_", "tt", "ns:t", "ns:t1", "n", "u", "ns_t", "ns.t"}
var c01Alpha = []byte{0x00, '+', ',', '-', '.', '0', ':', 'a', 0xff}

func c01Key(r *rand.Rand, maxLen int) []byte {
	n := r.Intn(maxLen + 1)
	k := make([]byte, n)
	for i := range k {
		if r.Intn(5) == 0 {
			k[i] = byte(r.Intn(256))
		} else {
			k[i] = c01Alpha[r.Intn(len(c01Alpha))]
		}
	}
	return k
}

// within runs f and reports whether it returned within d.
func within(d time.Duration, f func()) bool {
	done := make(chan struct{})
	go func() { defer close(done); f() }()
	select {
	case <-done:
		return true
	case <-time.After(d):
		return false
	}
}

type c01Req struct {
	Kind  string
	Table string
	Keys  [][]byte
}

func c01Wire(c *fw.Ctx, nClusters int) {
	r := c.Rand("wire")
	for ci := 0; ci < nClusters; ci++ {
		caseID := fmt.Sprintf("cluster-%d", ci)
		nTables := 1 + r.Intn(4)
		tables := map[string][][]byte{}
		perm := r.Perm(len(c01Tables))
		for _, ti := range perm[:nTables] {
			nb := r.Intn(6)
			set := map[string]bool{}
			var bounds [][]byte
			for len(bounds) < nb {
				k := c01Key(r, 3)
				if len(k) == 0 || set[string(k)] {
					continue
				}
				set[string(k)] = true
				bounds = append(bounds, k)
			}
			sort.Slice(bounds, func(i, j int) bool { return bytes.Compare(bounds[i], bounds[j]) < 0 })
			tables[c01Tables[ti]] = bounds
		}
		descr := map[string]any{}
		for t, b := range tables {
			descr[t] = fmt.Sprintf("%q", b)
		}
		c.Begin(caseID, descr)
		cl := sim.NewCluster(c.Seed*1000+int64(ci), 1+r.Intn(3))
		var tnames []string
		for t, b := range tables {
			cl.CreateTable(t, b, nil)
			tnames = append(tnames, t)
		}
		sort.Strings(tnames)
		cl.EchoResults = true
		cl.PermuteMulti = r.Intn(2) == 0
		client := newClient(cl, gohbase.RegionLookupTimeout(5*time.Second), gohbase.RegionReadTimeout(5*time.Second),
			gohbase.FlushInterval(time.Duration(r.Intn(2))*time.Millisecond))
		touched := map[string]bool{}
		opn := 0
		// some clusters are warmed with CacheRegions first: every region listed by
		// the meta range scan [t, t.) is then known - that range also holds the
		// rows of tables named "t-..." - and none of them may be looked up again
		if r.Intn(3) == 0 {
			t := tnames[r.Intn(len(tnames))]
			var err error
			if !within(20*time.Second, func() { err = client.CacheRegions([]byte(t)) }) || err != nil {
				c.Violate(caseID, "wire:cache-regions-failed", fmt.Sprintf("CacheRegions(%q) err=%v on a static fault-free cluster", t, err), descr)
			}
			for _, t2 := range tnames {
				if t2 >= t && t2 < t+"." {
					for _, rg := range cl.Regions(t2) {
						touched[string(rg.Name)] = true
					}
				}
			}
			c.Count("wire_clusters_warmed_with_cache_regions", 1)
		}
		probeKey := func(t string) []byte {
			b := tables[t]
			switch r.Intn(6) {
			case 0:
				if len(b) > 0 {
					return b[r.Intn(len(b))]
				}
			case 1:
				if len(b) > 0 {
					k := append([]byte{}, b[r.Intn(len(b))]...)
					switch r.Intn(3) {
					case 0:
						return append(k, 0)
					case 1:
						if k[len(k)-1] > 0 {
							k[len(k)-1]--
							return append(k, 0xff)
						}
					default:
						return k[:len(k)-1]
					}
				}
			case 2:
				return []byte{}
			}
			return c01Key(r, 4)
		}
		nReq := 40 + r.Intn(30)
		ok := true
		for q := 0; q < nReq && ok; q++ {
			t := tnames[r.Intn(len(tnames))]
			kind := []string{"get", "put", "delete", "append", "increment", "checkandput", "batch", "batch"}[r.Intn(8)]
			var keys [][]byte
			if kind == "batch" {
				for i, n := 0, 1+r.Intn(8); i < n; i++ {
					keys = append(keys, probeKey(t))
				}
			} else {
				keys = [][]byte{probeKey(t)}
			}
			// expected new meta lookups: distinct untouched owners
			expNew := map[string]bool{}
			for _, k := range keys {
				o := cl.Owner(t, k)
				if o == nil {
					panic("layout has a hole")
				}
				if !touched[string(o.Name)] {
					expNew[string(o.Name)] = true
				}
			}
			before := cl.Log.Len()
			ctx, cancel := context.WithTimeout(context.Background(), 20*time.Second)
			var calls []hrpc.Call
			var opids []string
			mk := func(kind string, k []byte) hrpc.Call {
				opn++
				opid := fmt.Sprintf("%s%d-%d-%d", sim.OpIDPrefix, c.Batch, ci, opn)
				opids = append(opids, opid)
				vals := map[string]map[string][]byte{"f": {opid: []byte("v")}}
				var call hrpc.Call
				var err error
				switch kind {
				case "get":
					call, err = hrpc.NewGet(ctx, []byte(t), k, hrpc.Families(map[string][]string{"echo": {opid}}))
				case "put", "checkandput":
					call, err = hrpc.NewPut(ctx, []byte(t), k, vals)
				case "delete":
					call, err = hrpc.NewDel(ctx, []byte(t), k, vals)
				case "append":
					call, err = hrpc.NewApp(ctx, []byte(t), k, vals)
				case "increment":
					vals["f"][opid] = []byte{0, 0, 0, 0, 0, 0, 0, 1}
					call, err = hrpc.NewInc(ctx, []byte(t), k, vals)
				}
				if err != nil {
					panic(err)
				}
				return call
			}
			var apiErr error
			returned := within(30*time.Second, func() {
				switch kind {
				case "batch":
					for _, k := range keys {
						calls = append(calls, mk([]string{"get", "put", "delete", "append", "increment"}[r.Intn(5)], k))
					}
					res, allOK := client.SendBatch(ctx, calls)
					if !allOK {
						for i, x := range res {
							if x.Error != nil {
								apiErr = fmt.Errorf("batch[%d]: %v", i, x.Error)
							}
						}
					}
				case "get":
					_, apiErr = client.Get(mk(kind, keys[0]).(*hrpc.Get))
				case "put":
					_, apiErr = client.Put(mk(kind, keys[0]).(*hrpc.Mutate))
				case "delete":
					_, apiErr = client.Delete(mk(kind, keys[0]).(*hrpc.Mutate))
				case "append":
					_, apiErr = client.Append(mk(kind, keys[0]).(*hrpc.Mutate))
				case "increment":
					_, apiErr = client.Increment(mk(kind, keys[0]).(*hrpc.Mutate))
				case "checkandput":
					_, apiErr = client.CheckAndPut(mk(kind, keys[0]).(*hrpc.Mutate), "f", "nope", nil)
				}
			})
			cancel()
			sigKeys := ""
			for _, k := range keys {
				sigKeys += fmt.Sprintf("%q", k)
			}
			c.Eval(fmt.Sprintf("%s|%s|%q|%s", kind, t, tables[t], sigKeys), true)
			c.Count("wire_requests_"+kind, 1)
			if !returned {
				c.Violate(caseID, "wire:request-stuck", fmt.Sprintf("%s on %s keys=%q did not return in 30s on a static fault-free cluster", kind, t, keys), descr)
				ok = false
				break
			}
			evs := cl.Log.Snapshot()[before:]
			metaLookups := 0
			execs := map[string]int{}
			for _, e := range evs {
				switch e.Kind {
				case "meta-lookup":
					metaLookups++
				case "misroute":
					c.Violate(caseID, "wire:misrouted", fmt.Sprintf("%s %s row %q sent to region %q on %s which does not contain it (layout %q)",
						kind, e.OpID, e.Row, e.Region, e.Server, tables[t]), descr)
				case "exec-fault":
					if e.OpID != "" {
						c.Violate(caseID, "wire:wrong-server-or-region", fmt.Sprintf("%s %s row %q region %q on %s: %s (static layout)", kind, e.OpID, e.Row, e.Region, e.Server, e.Info), descr)
					}
				case "exec":
					if e.OpID != "" {
						execs[e.OpID]++
						// independent re-check of what the simulator judged
						o := cl.Owner(e.Table, e.Row)
						if o == nil || string(o.Name) != e.Region || o.Server != e.Server || e.Table != t {
							c.Violate(caseID, "wire:misrouted", fmt.Sprintf("op %s row %q executed by %q@%s, owner is %v", e.OpID, e.Row, e.Region, e.Server, o), descr)
						}
						c.Count("wire_actions_checked", 1)
					}
				case "malformed":
					c.Violate(caseID, "wire:malformed-frame", e.Info, descr)
				}
			}
			for n := range expNew {
				touched[n] = true
			}
			if apiErr != nil {
				c.Violate(caseID, "wire:request-failed", fmt.Sprintf("%s on %s keys=%q failed on a static fault-free cluster: %v", kind, t, keys, apiErr), descr)
				continue
			}
			for _, id := range opids {
				if execs[id] != 1 {
					c.Violate(caseID, "wire:not-executed-once", fmt.Sprintf("op %s executed %d times", id, execs[id]), descr)
				}
			}
			if metaLookups != len(expNew) {
				f := "wire:lookup-for-cached-key"
				if metaLookups < len(expNew) {
					f = "wire:no-lookup-for-unknown-key"
				}
				c.Violate(caseID, f, fmt.Sprintf("%s on %s keys=%q: %d meta lookups, expected %d (regions first touched: %d) layout %q",
					kind, t, keys, metaLookups, len(expNew), len(expNew), tables[t]), descr)
			}
			c.Count("wire_meta_lookups", int64(metaLookups))
			for n := range expNew {
				touched[n] = true
			}
		}
		// concurrent phase: 8 callers at once; two simultaneous misses may both look
		// up, but a key whose region was resolved before this phase must not be looked up
		if ok {
			mark := cl.Log.Len()
			resolved := map[string]bool{}
			for n := range touched {
				resolved[n] = true
			}
			var wg sync.WaitGroup
			var cfail int32
			for g := 0; g < 8; g++ {
				seed := r.Int63()
				wg.Add(1)
				go func(g int) {
					defer wg.Done()
					rr := rand.New(rand.NewSource(seed))
					for k := 0; k < 6; k++ {
						t := tnames[rr.Intn(len(tnames))]
						key := c01Key(rr, 4)
						ctx, cancel := context.WithTimeout(context.Background(), 20*time.Second)
						opid := fmt.Sprintf("%s%d-%d-c%d-%d", sim.OpIDPrefix, c.Batch, ci, g, k)
						var err error
						if rr.Intn(2) == 0 {
							gt, _ := hrpc.NewGet(ctx, []byte(t), key, hrpc.Families(map[string][]string{"echo": {opid}}))
							_, err = client.Get(gt)
						} else {
							p, _ := hrpc.NewPut(ctx, []byte(t), key, map[string]map[string][]byte{"f": {opid: []byte("v")}})
							_, err = client.Put(p)
						}
						cancel()
						if err != nil {
							atomic.AddInt32(&cfail, 1)
						}
					}
				}(g)
			}
			if !within(60*time.Second, wg.Wait) {
				c.Violate(caseID, "wire:request-stuck", "concurrent phase did not finish in 60s on a static fault-free cluster", descr)
			} else {
				if n := atomic.LoadInt32(&cfail); n > 0 {
					c.Violate(caseID, "wire:request-failed", fmt.Sprintf("%d request(s) of the concurrent phase failed on a static fault-free cluster", n), descr)
				}
				for _, e := range cl.Log.Snapshot()[mark:] {
					switch e.Kind {
					case "meta-lookup":
						if o := cl.Owner(e.Table, e.Row); o != nil && resolved[string(o.Name)] {
							c.Violate(caseID, "wire:lookup-for-cached-key", fmt.Sprintf("concurrent phase: meta lookup for %s key %q although its region %q had been resolved before", e.Table, e.Row, o.Name), descr)
						}
						c.Count("wire_meta_lookups", 1)
					case "misroute":
						c.Violate(caseID, "wire:misrouted", fmt.Sprintf("concurrent phase: %s row %q sent to region %q on %s which does not contain it", e.OpID, e.Row, e.Region, e.Server), descr)
					case "exec-fault":
						if e.OpID != "" {
							c.Violate(caseID, "wire:wrong-server-or-region", fmt.Sprintf("concurrent phase: %s row %q region %q on %s: %s", e.OpID, e.Row, e.Region, e.Server, e.Info), descr)
						}
					case "exec":
						if e.OpID != "" {
							c.Count("wire_actions_checked", 1)
							c.Count("wire_concurrent_actions_checked", 1)
						}
					}
				}
			}
		}
		if ci == 0 {
			c.Sample(map[string]any{"kind": "wire", "layout": descr, "requests": nReq})
		}
		closed := within(10*time.Second, client.Close)
		_ = closed
		cl.Close()
		c.Count("wire_clusters", 1)
	}
}

// c01Holes: hbase:meta has no row for one region of the table (a hole between
// two listed regions, or after the last listed one with a same-prefixed table
// following). A key in the hole is outside every known range: it must be
// resolved through hbase:meta - over and over, since meta keeps answering with
// the preceding row - and never be sent to the neighbouring region.
func c01Holes(c *fw.Ctx, n int) {
	r := c.Rand("holes")
	for ci := 0; ci < n; ci++ {
		caseID := fmt.Sprintf("hole-%d", ci)
		cl := sim.NewCluster(c.Seed*7000+int64(ci), 1+r.Intn(3))
		bounds := [][]byte{[]byte("d"), []byte("h"), []byte("m"), []byte("t")}[:2+r.Intn(3)]
		regs := cl.CreateTable("t", bounds, nil)
		cl.CreateTable("t1", nil, nil)
		cl.CreateTable("ta", [][]byte{[]byte("h")}, nil)
		cl.EchoResults = true
		hi := 1 + r.Intn(len(regs)-1) // never the first region: the table would look absent
		hole := regs[hi]
		replicaOnly := ci%2 == 1
		if replicaOnly {
			// the row is there but names no server for the region itself, only the
			// location of a read replica: the region has no known location either
			cl.SetMetaReplicaOnly(hole.Name, "rs0:16020")
			c.Count("holes_with_a_replica_only_row", 1)
		} else {
			cl.SetInMeta(hole.Name, false)
		}
		warm := r.Intn(2) == 0
		descr := fmt.Sprintf("bounds=%q hole=[%q,%q) warm=%v replica-only-row=%v", bounds, hole.Start, hole.Stop, warm, replicaOnly)
		c.Begin(caseID, descr)
		client := newClient(cl, gohbase.RegionLookupTimeout(2*time.Second), gohbase.RegionReadTimeout(2*time.Second))
		one := func(i int, kind string, key []byte, dl time.Duration) (string, error) {
			opid := fmt.Sprintf("%shole-%d-%d-%d", sim.OpIDPrefix, c.Batch, ci, i)
			ctx, cancel := context.WithTimeout(context.Background(), dl)
			defer cancel()
			var err error
			within(10*time.Second, func() {
				switch kind {
				case "get":
					g, _ := hrpc.NewGet(ctx, []byte("t"), key, hrpc.Families(map[string][]string{"echo": {opid}}))
					_, err = client.Get(g)
				case "put":
					p, _ := hrpc.NewPut(ctx, []byte("t"), key, map[string]map[string][]byte{"f": {opid: []byte("v")}})
					_, err = client.Put(p)
				default:
					p, _ := hrpc.NewPut(ctx, []byte("t"), key, map[string]map[string][]byte{"f": {opid: []byte("v")}})
					res, _ := client.SendBatch(ctx, []hrpc.Call{p})
					err = res[0].Error
				}
			})
			return opid, err
		}
		if warm { // the neighbours are cached first
			for i, rg := range regs {
				if i != hi {
					if _, err := one(100+i, "get", append(append([]byte{}, rg.Start...), '0'), 5*time.Second); err != nil {
						c.Violate(caseID, "wire:request-failed", fmt.Sprintf("key of a listed region failed: %v: %s", err, descr), descr)
					}
				}
			}
		}
		holeKeys := [][]byte{hole.Start, append(append([]byte{}, hole.Start...), 0), append(append([]byte{}, hole.Start...), 'z', 'z')}
		inHole := map[string]bool{}
		for i, k := range holeKeys {
			kind := []string{"get", "put", "batch"}[(i+ci)%3]
			opid, err := one(i, kind, k, 120*time.Millisecond)
			inHole[opid] = true
			c.Eval(fmt.Sprintf("hole|%q|%q|%q|%v|%s", bounds, hole.Start, k, warm, kind), true)
			c.Count("hole_requests", 1)
			if err == nil {
				c.Violate(caseID, "wire:hole-key-served", fmt.Sprintf("%s row %q succeeded although hbase:meta lists no region containing it: %s", kind, k, descr), descr)
			}
		}
		metaLookups := 0
		for _, e := range cl.Log.Snapshot() {
			switch e.Kind {
			case "meta-lookup":
				metaLookups++
			case "misroute":
				c.Violate(caseID, "wire:misrouted", fmt.Sprintf("op %s row %q sent to region %q on %s which does not contain it: %s", e.OpID, e.Row, e.Region, e.Server, descr), descr)
			case "exec", "exec-fault":
				if inHole[e.OpID] {
					c.Violate(caseID, "wire:hole-key-sent", fmt.Sprintf("op %s row %q was sent to region %q although meta lists no region containing it: %s", e.OpID, e.Row, e.Region, descr), descr)
				}
			}
		}
		if metaLookups < len(holeKeys) {
			c.Violate(caseID, "wire:no-lookup-for-unknown-key", fmt.Sprintf("%d meta lookups for %d keys outside every known range: %s", metaLookups, len(holeKeys), descr), descr)
		}
		c.Count("hole_meta_lookups", int64(metaLookups))
		within(3*time.Second, client.Close)
		cl.Close()
	}
}

func init() {
	fw.Register(&fw.Prop{
		ID:    "C01",
		Level: "exploration",
		Rule: "(1) exhaustive: every layout of table t with <=3 boundaries drawn from all keys of length<=2 over " +
			"{00,',',':','a',ff}, every non-empty subset of its regions inserted into the real cache (two first-touch " +
			"orders) next to regions of tables s, tt, t-, ns:t, then the real lookup for 9 probe tables (incl. ns_t, ns0t: ns:t with another byte for the separator) x all 31 keys " +
			"compared with brute-force containment (each (layout,subset,table,key) is distinct by construction); " +
			"(2) real client vs simulated cluster: seeded clusters of 1..4 hostile-named tables with 1..6 regions, " +
			"40..70 sequential requests of all kinds incl. batches over boundary-adjacent keys; every executed action " +
			"judged by owner(table,row)==(region,server) and meta lookups counted per first touch; then 8 concurrent callers x 6 requests " +
			"(no lookup for keys of regions resolved before, no misrouting); (3) tables whose hbase:meta lacks the row of one " +
			"region, or lists only a read replica's location for it: keys in the hole are never sent anywhere. distinct wire case = " +
			"(kind, table, layout, keys)",
		Assumptions: []string{
			"the simulated hbase:meta answers lookups semantically (tuple order), independent of the client's comparator",
			"wire monitor runs on static layouts, sequential requests (exact lookup counts are only defined there)",
		},
		Plan: func(tier string) fw.Plan {
			if tier == "thorough" {
				return fw.Plan{Batches: 32, Parallel: 16, Timeout: 30 * time.Minute}
			}
			return fw.Plan{Batches: 8, Parallel: 8, Timeout: 6 * time.Minute}
		},
		Floors: func(tier string) map[string]int64 {
			return map[string]int64{"cache_lookups_checked": 1000000, "wire_actions_checked": 2000, "wire_meta_lookups": 100,
				"wire_clusters": 200, "hole_requests": 100, "wire_clusters_warmed_with_cache_regions": 40, "wire_concurrent_actions_checked": 5000, "lookup_class_key==boundary": 1000, "lookup_class_comma-key": 1000}
		},
		Run: func(c *fw.Ctx) {
			c01Lookup(c)
			c01Wire(c, c.Pick(240, 3200)/c.NBatches)
			c01Holes(c, c.Pick(48, 640)/c.NBatches)
		},
	})
}

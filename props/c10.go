package props

import (
	"bytes"
	"context"
	"fmt"
	"math"
	"math/rand"
	"sort"
	"strings"
	"time"

	"verif/fw"
	"verif/sim"

	"github.com/tsuna/gohbase/hrpc"
	"github.com/tsuna/gohbase/pb"
	"google.golang.org/protobuf/proto"
)

// C10 — cell encoding is lossless and both mutation encodings agree.

type c10Case struct {
	Kind       string // put app inc del del1
	RowLen     int
	Shape      string
	Values     map[string]map[string][]byte `json:"-"`
	TS         uint64
	HasTS      bool
	TTL        bool
	Durability int
	Descr      string
}

// (the last entries do not fit the 2-byte row length / 1-byte family length of a KeyValue:
// the constructor may refuse them, but nothing may be encoded wrongly in silence)
var c10RowLens = []int{0, 1, 2, 3, 17, 255, 256, 1000, 65535}
var c10RowLensOversize = []int{65536, 65541}
var c10FamLens = []int{0, 1, 2, 5, 254, 255}
var c10FamLensOversize = []int{256, 300}
var c10QualLens = []int{0, 1, 2, 10, 300}
var c10ValLens = []int{0, 1, 8, 100, 1000}
var c10TS = []uint64{0, 1, math.MaxInt64, 1 << 63, math.MaxUint64 - 1, 1500000000000}

func rbytes(r *rand.Rand, n int) []byte {
	b := make([]byte, n)
	for i := range b {
		switch r.Intn(5) {
		case 0:
			b[i] = 0
		case 1:
			b[i] = 0xff
		default:
			b[i] = byte(r.Intn(256))
		}
	}
	return b
}

func genC10(r *rand.Rand) (c10Case, []byte) {
	var cs c10Case
	cs.Kind = []string{"put", "app", "inc", "del", "del1"}[r.Intn(5)]
	cs.RowLen = c10RowLens[r.Intn(len(c10RowLens))]
	if r.Intn(40) == 0 {
		cs.RowLen = c10RowLensOversize[r.Intn(len(c10RowLensOversize))]
	}
	if r.Intn(4) == 0 {
		cs.RowLen = r.Intn(300)
	}
	row := rbytes(r, cs.RowLen)
	shape := r.Intn(10)
	var lens []string
	pick := func(l []int) int { return l[r.Intn(len(l))] }
	ql := func() int {
		if r.Intn(400) == 0 {
			return 70000
		}
		return pick(c10QualLens)
	}
	vl := func() int {
		if r.Intn(400) == 0 {
			return 70000 + r.Intn(200000)
		}
		return pick(c10ValLens)
	}
	fam := func() string {
		n := pick(c10FamLens)
		if r.Intn(40) == 0 {
			n = pick(c10FamLensOversize)
		}
		lens = append(lens, fmt.Sprintf("f%d", n))
		return string(rbytes(r, n))
	}
	inner := func(n int) map[string][]byte {
		m := map[string][]byte{}
		for i := 0; i < n; i++ {
			a, b := ql(), vl()
			lens = append(lens, fmt.Sprintf("q%dv%d", a, b))
			var v []byte
			if b > 0 || r.Intn(2) == 0 {
				v = rbytes(r, b)
			}
			m[string(rbytes(r, a))] = v
		}
		return m
	}
	switch shape {
	case 0:
		cs.Shape, cs.Values = "nil-map", nil
	case 1:
		cs.Shape, cs.Values = "empty-map", map[string]map[string][]byte{}
	case 2:
		cs.Shape, cs.Values = "family-nil", map[string]map[string][]byte{fam(): nil}
	case 3:
		cs.Shape, cs.Values = "family-empty", map[string]map[string][]byte{fam(): {}}
	case 4:
		cs.Shape, cs.Values = "one-cell", map[string]map[string][]byte{fam(): inner(1)}
	case 5:
		cs.Shape, cs.Values = "empty-qualifier", map[string]map[string][]byte{fam(): {"": rbytes(r, vl())}}
	case 6:
		cs.Shape = "mixed-nil-and-cells"
		cs.Values = map[string]map[string][]byte{fam(): nil, fam(): inner(1 + r.Intn(3))}
		if r.Intn(2) == 0 {
			cs.Values[fam()] = map[string][]byte{}
		}
	default:
		cs.Shape = "many"
		cs.Values = map[string]map[string][]byte{}
		for i, n := 0, 1+r.Intn(4); i < n; i++ {
			cs.Values[fam()] = inner(1 + r.Intn(5))
		}
	}
	if r.Intn(2) == 0 {
		cs.HasTS = true
		if r.Intn(3) == 0 {
			cs.TS = r.Uint64()
		} else {
			cs.TS = c10TS[r.Intn(len(c10TS))]
		}
	}
	cs.TTL = r.Intn(4) == 0
	cs.Durability = r.Intn(5)
	sort.Strings(lens)
	cs.Descr = fmt.Sprintf("%s row=%d shape=%s ts=%v/%d lens=%s", cs.Kind, cs.RowLen, cs.Shape, cs.HasTS, cs.TS, strings.Join(lens, ","))
	return cs, row
}

func lenClass(n int) string {
	switch {
	case n == 0:
		return "0"
	case n == 1:
		return "1"
	case n < 255:
		return "s"
	case n == 255:
		return "255"
	case n == 256:
		return "256"
	case n < 65535:
		return "m"
	case n == 65535:
		return "65535"
	}
	return "L"
}

func buildMutate(cs c10Case, row []byte) (*hrpc.Mutate, error) {
	var opts []func(hrpc.Call) error
	if cs.HasTS {
		opts = append(opts, hrpc.TimestampUint64(cs.TS))
	}
	if cs.TTL {
		opts = append(opts, hrpc.TTL(90*time.Second))
	}
	opts = append(opts, hrpc.Durability(hrpc.DurabilityType(cs.Durability)))
	ctx := context.Background()
	tbl := []byte("t")
	switch cs.Kind {
	case "put":
		return hrpc.NewPut(ctx, tbl, row, cs.Values, opts...)
	case "app":
		return hrpc.NewApp(ctx, tbl, row, cs.Values, opts...)
	case "inc":
		return hrpc.NewInc(ctx, tbl, row, cs.Values, opts...)
	case "del":
		return hrpc.NewDel(ctx, tbl, row, cs.Values, opts...)
	default:
		opts = append(opts, hrpc.DeleteOneVersion())
		return hrpc.NewDel(ctx, tbl, row, cs.Values, opts...)
	}
}

// expectedCells derives the cell set from the input map by the documented API
// semantics. judged=false where the documentation is silent (delete with an
// empty non-nil inner map): then only agreement between encodings is judged.
func expectedCells(cs c10Case, row []byte) (cells []sim.Cell, judged bool) {
	judged = true
	ts := sim.LatestTimestamp
	if cs.HasTS && cs.TS != math.MaxUint64 {
		ts = cs.TS
	}
	isDel := cs.Kind == "del" || cs.Kind == "del1"
	for f, inner := range cs.Values {
		if isDel && len(inner) == 0 {
			if inner != nil {
				judged = false
				continue
			}
			t := byte(sim.TypeDeleteFamily)
			if cs.Kind == "del1" {
				t = sim.TypeDeleteFamilyVersion
			}
			cells = append(cells, sim.Cell{Row: row, Family: []byte(f), Qualifier: []byte{}, TS: ts, Type: t})
			continue
		}
		for q, v := range inner {
			t := byte(sim.TypePut)
			if isDel {
				t = sim.TypeDeleteColumn
				if cs.Kind == "del1" {
					t = sim.TypeDelete
				}
			}
			cells = append(cells, sim.Cell{Row: row, Family: []byte(f), Qualifier: []byte(q), TS: ts, Type: t, Value: v})
		}
	}
	return
}

func cellSetKey(cells []sim.Cell) string {
	keys := make([]string, len(cells))
	for i, c := range cells {
		keys[i] = c.Key()
	}
	sort.Strings(keys)
	return strings.Join(keys, "\n")
}

// protoCells normalises the protobuf form of a mutation to a cell set.
func protoCells(mp *pb.MutationProto) ([]sim.Cell, error) {
	var out []sim.Cell
	isDel := mp.GetMutateType() == pb.MutationProto_DELETE
	for _, cv := range mp.ColumnValue {
		for _, qv := range cv.QualifierValue {
			ts := sim.LatestTimestamp
			if qv.Timestamp != nil {
				ts = *qv.Timestamp
				if ts == math.MaxUint64 {
					ts = sim.LatestTimestamp
				}
			}
			t := byte(sim.TypePut)
			if isDel {
				if qv.DeleteType == nil {
					return nil, fmt.Errorf("delete without delete_type")
				}
				switch *qv.DeleteType {
				case pb.MutationProto_DELETE_ONE_VERSION:
					t = sim.TypeDelete
				case pb.MutationProto_DELETE_MULTIPLE_VERSIONS:
					t = sim.TypeDeleteColumn
				case pb.MutationProto_DELETE_FAMILY:
					t = sim.TypeDeleteFamily
				case pb.MutationProto_DELETE_FAMILY_VERSION:
					t = sim.TypeDeleteFamilyVersion
				}
			} else if qv.DeleteType != nil {
				return nil, fmt.Errorf("non-delete with delete_type")
			}
			q := qv.Qualifier
			if q == nil {
				q = []byte{}
			}
			out = append(out, sim.Cell{Row: mp.Row, Family: cv.Family, Qualifier: q, TS: ts, Type: t, Value: qv.Value})
		}
	}
	return out, nil
}

type serializer interface {
	SerializeCellBlocks([][]byte) (proto.Message, [][]byte, uint32)
}

func judgeC10(cs c10Case, row []byte) (finding, detail string, ncells int) {
	m, err := buildMutate(cs, row)
	if err != nil {
		return "", "", -1 // constructor refused: not a case
	}
	m.SetRegion(testRegion)
	// protobuf form
	var pmsg proto.Message
	func() {
		defer func() {
			if p := recover(); p != nil {
				finding, detail = "encode:panic-protobuf", fmt.Sprintf("ToProto panicked: %v", p)
			}
		}()
		pmsg = m.ToProto()
	}()
	if finding != "" {
		return
	}
	pcells, err := protoCells(pmsg.(*pb.MutateRequest).Mutation)
	if err != nil {
		return "encode:protobuf-malformed", err.Error(), 0
	}
	// cellblock form
	var cmsg proto.Message
	var cbs [][]byte
	var size uint32
	func() {
		defer func() {
			if p := recover(); p != nil {
				kindc := "non-delete"
				if strings.HasPrefix(cs.Kind, "del") {
					kindc = "delete"
				}
				shape := "other"
				for _, inner := range cs.Values {
					if inner == nil {
						shape = "nil-inner-map"
					}
				}
				finding = fmt.Sprintf("encode:panic-cellblocks:%s:%s", kindc, shape)
				detail = fmt.Sprintf("SerializeCellBlocks panicked (%v) while ToProto encodes %d cells", p, len(pcells))
			}
		}()
		cmsg, cbs, size = serializer(m).SerializeCellBlocks(nil)
	}()
	if finding != "" {
		return
	}
	raw := bytes.Join(cbs, nil)
	if int(size) != len(raw) {
		return "encode:size-mismatch", fmt.Sprintf("reported cellblock size %d, bytes produced %d", size, len(raw)), 0
	}
	wire := make([]byte, len(raw)) // cap == len: over-reads become panics
	copy(wire, raw)
	hcells, err := sim.DecodeCells(wire)
	if err != nil {
		return "encode:independent-decoder-rejects", fmt.Sprintf("independent KeyValue decoder: %v", err), 0
	}
	mp := cmsg.(*pb.MutateRequest).Mutation
	if int(mp.GetAssociatedCellCount()) != len(hcells) {
		return "encode:cell-count-mismatch", fmt.Sprintf("associated_cell_count=%d but %d cells in the cellblock", mp.GetAssociatedCellCount(), len(hcells)), 0
	}
	if len(mp.ColumnValue) != 0 {
		return "encode:cells-in-both-forms", "cellblock form also carries column values in protobuf", 0
	}
	exp, judged := expectedCells(cs, row)
	if judged && cellSetKey(exp) != cellSetKey(hcells) {
		return "encode:cellblock-differs-from-input", fmt.Sprintf("input denotes %d cells, cellblock decodes to %d: exp=%v got=%v", len(exp), len(hcells), head(exp), head(hcells)), 0
	}
	if cellSetKey(pcells) != cellSetKey(hcells) {
		return "encode:forms-disagree", fmt.Sprintf("protobuf form denotes %v, cellblock form %v", head(pcells), head(hcells)), 0
	}
	// row / type / timestamp in the protobuf envelope
	if !bytes.Equal(mp.Row, row) || !bytes.Equal(pmsg.(*pb.MutateRequest).Mutation.Row, row) {
		return "encode:row-mismatch", "mutation row differs from input", 0
	}
	// the client's own decoder over the same bytes
	var resp proto.Message
	var dec interface {
		DeserializeCellBlocks(proto.Message, []byte) (uint32, error)
	}
	n := int32(len(hcells))
	if len(hcells)%2 == 0 {
		g, _ := hrpc.NewGet(context.Background(), []byte("t"), row)
		resp, dec = &pb.GetResponse{Result: &pb.Result{AssociatedCellCount: &n}}, g
	} else {
		resp, dec = &pb.MutateResponse{Result: &pb.Result{AssociatedCellCount: &n}}, m
	}
	var read uint32
	func() {
		defer func() {
			if p := recover(); p != nil {
				finding, detail = "decode:panic-on-own-encoding", fmt.Sprintf("client decoder panicked on client-encoded cells: %v", p)
			}
		}()
		read, err = dec.DeserializeCellBlocks(resp, wire)
	}()
	if finding != "" {
		return
	}
	if err != nil {
		return "decode:own-encoding-rejected", err.Error(), 0
	}
	if int(read) != len(wire) {
		return "decode:consumed-mismatch", fmt.Sprintf("client decoder consumed %d of %d bytes", read, len(wire)), 0
	}
	var res *pb.Result
	switch r := resp.(type) {
	case *pb.GetResponse:
		res = r.Result
	case *pb.MutateResponse:
		res = r.Result
	}
	var ccells []sim.Cell
	for _, pc := range res.Cell {
		ccells = append(ccells, sim.Cell{Row: pc.Row, Family: pc.Family, Qualifier: pc.Qualifier,
			TS: pc.GetTimestamp(), Type: byte(pc.GetCellType()), Value: pc.Value})
	}
	if len(ccells) != len(hcells) {
		return "decode:count-differs", fmt.Sprintf("client decoded %d cells, independent decoder %d", len(ccells), len(hcells)), 0
	}
	for i := range ccells { // order must be preserved by a sequential decoder
		if ccells[i].Key() != hcells[i].Key() {
			return "decode:cell-differs", fmt.Sprintf("cell %d: client %v, independent %v", i, ccells[i], hcells[i]), 0
		}
	}
	return "", "", len(hcells)
}

func head(c []sim.Cell) []sim.Cell {
	if len(c) > 4 {
		return c[:4]
	}
	return c
}

func init() {
	fw.Register(&fw.Prop{
		ID:    "C10",
		Level: "exploration",
		Rule: "seeded generated mutations (put/append/increment/delete/delete-one-version) x map shapes {nil map, " +
			"empty map, family->nil, family->empty, one cell, empty qualifier, mixed, many} x boundary lengths (row " +
			"0..65535, family 0..255, qualifier/value 0..270000) x timestamps {none,0,1,2^63-1,2^63,2^64-2,random}; " +
			"each is serialised to cellblocks and to protobuf, decoded by an independent KeyValue decoder and by the " +
			"client's decoder; distinct = distinct (kind, shape, row/family/qualifier/value length classes, ts class); " +
			"non-trivial = the mutation denotes at least one cell or has a nil/empty shape",
		Assumptions: []string{
			"expected cells follow the documented API semantics; for a delete whose family maps to an empty non-nil map only agreement of the two encodings is judged",
			"an absent protobuf timestamp and 2^63-1 in a cellblock both mean 'latest'",
		},
		Plan: func(tier string) fw.Plan {
			if tier == "thorough" {
				return fw.Plan{Batches: 32, Parallel: 16, Timeout: 30 * time.Minute}
			}
			return fw.Plan{Batches: 8, Parallel: 8, Timeout: 5 * time.Minute}
		},
		Floors: func(tier string) map[string]int64 {
			return map[string]int64{"evaluations": 15000, "cells_round_tripped": 20000, "row_len_65535": 100,
				"family_len_255": 100, "shape_family-nil": 500, "huge_value_or_qualifier": 20}
		},
		Run: runC10,
	})
}

func runC10(c *fw.Ctx) {
	r := c.Rand("mut")
	n := c.Pick(24000, 2000000) / c.NBatches
	for i := 0; i < n; i++ {
		cs, row := genC10(r)
		if i%200 == 0 {
			c.Begin(fmt.Sprintf("mut-%d", i), cs.Descr)
		}
		finding, detail, ncells := judgeC10(cs, row)
		if ncells == -1 {
			c.Count("constructor_refused", 1)
			continue
		}
		tsc := "none"
		if cs.HasTS {
			tsc = fmt.Sprint(cs.TS)
			if cs.TS > 1 && cs.TS != math.MaxInt64 && cs.TS != 1<<63 && cs.TS != math.MaxUint64-1 {
				tsc = "other"
			}
		}
		var lc []string
		huge := false
		for f, inner := range cs.Values {
			lc = append(lc, "f"+lenClass(len(f)))
			if len(f) == 255 {
				c.Count("family_len_255", 1)
			}
			for q, v := range inner {
				lc = append(lc, "q"+lenClass(len(q))+"v"+lenClass(len(v)))
				if len(q) >= 65535 || len(v) >= 65535 {
					huge = true
				}
			}
		}
		if huge {
			c.Count("huge_value_or_qualifier", 1)
		}
		sort.Strings(lc)
		sig := fmt.Sprintf("%s|%s|r%s|%s|%s", cs.Kind, cs.Shape, lenClass(cs.RowLen), tsc, strings.Join(lc, ","))
		c.Eval(sig, ncells > 0 || cs.Shape != "many")
		c.Count("shape_"+cs.Shape, 1)
		c.Count("kind_"+cs.Kind, 1)
		if cs.RowLen == 65535 {
			c.Count("row_len_65535", 1)
		}
		if finding != "" {
			c.Violate(fmt.Sprintf("mut-%d", i), finding, cs.Descr+": "+detail,
				map[string]any{"case": cs, "row_len": len(row), "index": i})
			continue
		}
		c.Count("cells_round_tripped", int64(ncells))
		if i == 5 || i == 77 {
			c.Sample(cs.Descr)
		}
	}
}

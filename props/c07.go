package props

import (
	"context"
	"errors"
	"fmt"
	"strings"
	"time"

	"verif/fw"
	"verif/sim"

	"github.com/tsuna/gohbase"
	"github.com/tsuna/gohbase/hrpc"
)

// C07 — batch results are positional and self-consistent.

func init() {
	fw.Register(&fw.Prop{
		ID:    "C07",
		Level: "fault_enumeration",
		Rule: "the batch cases of C12 (1..12 calls here, so that single-fault placements are dense) with per-call outcome " +
			"scripts over {ok, fatal, retry-later, region-not-serving, connection dead before/after execution}, the table " +
			"dropped between retry rounds (re-location fails in a later round), cancellation before queueing / while waiting / " +
			"during back-off / as the reply is written / while delivered results are being collected (wrapper calls that cancel when their result is looked at), a call's own context ending in four states, an action left out of the response. Judged per slot i: the result is the response the server produced for call i (payload derived " +
			"from its op id) or the error the server attached to call i, a delivered success is never replaced by another " +
			"call's error, no executed call keeps the not-executed placeholder, allOK == all errors nil, no untriggered batch runs into its 20 s deadline. distinct = outcome " +
			"matrix; non-trivial = at least one non-ok outcome or trigger",
		Assumptions: []string{"with a cancellation trigger a delivered success may legitimately surface as the context error (the client may not have read it yet)"},
		Plan: func(tier string) fw.Plan {
			if tier == "thorough" {
				return fw.Plan{Batches: 32, Parallel: 16, Timeout: 40 * time.Minute}
			}
			return fw.Plan{Batches: 8, Parallel: 8, Timeout: 8 * time.Minute}
		},
		Floors: func(tier string) map[string]int64 {
			return map[string]int64{"batches": 2000, "enumerated_single_fault_placements": 400, "slots_checked": 2000, "relocation_failed_in_later_round": 10, "retry_rounds_observed": 300,
				"cancel_before": 15, "cancel_waiting": 15, "cancel_backoff": 15, "slots_success_payload_checked": 1000, "slots_own_error_checked": 200, "own_context_calls_checked": 100}
		},
		Run: runC07,
	})
}

func runC07(c *fw.Ctx) {
	// all single-fault placements for batches of up to 4 calls
	for i, b := range enumBatchCases() {
		if i%c.NBatches != c.Batch {
			continue
		}
		id := fmt.Sprintf("e%d", i)
		if i%50 == 0 {
			c.Begin(id, b)
		}
		c.Eval("enum|"+b.matrix(), true)
		c.Count("batches", 1)
		c.Count("enumerated_single_fault_placements", 1)
		judgeC07(c, id, runBatchCase(b, id))
	}
	r := c.Rand("c07")
	n := c.Pick(2400, 24000) / c.NBatches
	for i := 0; i < n; i++ {
		b := genBatchCase(r, 12)
		if b.Trigger == "cancel-backoff" || b.Trigger == "cancel-waiting" {
			b.Deadline = 8 * time.Second
		}
		id := fmt.Sprintf("b%d-%d", c.Batch, i)
		c.Begin(id, b)
		nontrivial := b.Invalid != "" || b.Trigger != ""
		for _, cl := range b.Calls {
			if len(cl.Script) > 0 {
				nontrivial = true
			}
		}
		c.Eval(b.matrix(), nontrivial)
		c.Count("batches", 1)
		run := runBatchCase(b, id)
		judgeC07(c, id, run)
		if i == 1 {
			c.Sample(b.String())
		}
	}
}

func isCtxErr(err error) bool {
	return errors.Is(err, context.Canceled) || errors.Is(err, context.DeadlineExceeded) ||
		(err != nil && (strings.Contains(err.Error(), "context canceled") || strings.Contains(err.Error(), "deadline exceeded")))
}

func judgeC07(c *fw.Ctx, id string, run *batchRun) {
	b := run.Case
	if !run.Returned {
		c.Violate(id, "batch:stuck", "SendBatch did not return: "+b.String(), b)
		return
	}
	if len(run.Res) != len(run.Calls) {
		c.Violate(id, "batch:result-length", fmt.Sprintf("%d results for %d calls: %s", len(run.Res), len(run.Calls), b), b)
		return
	}
	if b.Trigger == "" && b.Invalid == "" && run.Elapsed >= b.Deadline {
		// nothing was cancelled or held and every scripted answer is finite: a batch
		// that only ends with its 20s deadline was waiting for something that never came
		for i, res := range run.Res {
			if isCtxErr(res.Error) {
				c.Violate(id, "batch:call-waited-until-the-deadline", fmt.Sprintf("slot %d (%s) ended with %v after %v although the servers answered every request: %s",
					i, run.OpIDs[i], res.Error, run.Elapsed.Round(time.Millisecond), b), b)
				break
			}
		}
	}
	cancelling := strings.HasPrefix(b.Trigger, "cancel")
	if cancelling {
		c.Count(strings.Replace(b.Trigger, "-", "_", -1), 1)
	}
	allNil := true
	rounds := 0
	for _, as := range run.Attempts {
		if len(as) > rounds {
			rounds = len(as)
		}
	}
	if rounds > 1 {
		c.Count("retry_rounds_observed", int64(rounds-1))
	}
	relocFailed := false
	for i, res := range run.Res {
		opid := run.OpIDs[i]
		c.Count("slots_checked", 1)
		if res.Error != nil {
			allNil = false
		}
		if res.Error == nil && res.Msg == nil {
			c.Violate(id, "batch:slot-empty", fmt.Sprintf("slot %d has neither response nor error: %s", i, b), b)
			continue
		}
		if b.Invalid != "" {
			continue // rejected as a whole: only shape and the flag are judged (C12 judges that nothing was sent)
		}
		as := run.Attempts[opid]
		successDelivered, fatalDelivered := false, false
		for _, a := range as {
			if !run.delivered(a.Conn, a.CallID) {
				continue
			}
			switch run.actual(a) {
			case "exec":
				successDelivered = true
			case sim.ExcDoNotRetry:
				fatalDelivered = true
			}
		}
		if res.Error != nil && strings.Contains(res.Error.Error(), "table not found") && len(as) > 0 {
			relocFailed = true
		}
		// a response in a slot must be this call's own
		if res.Msg != nil && res.Error == nil {
			lr := msgResult(res.Msg)
			own := false
			if lr != nil {
				for _, cell := range lr.Cells {
					if strings.HasPrefix(string(cell.Qualifier), opid) {
						own = true
					} else if strings.HasPrefix(string(cell.Qualifier), sim.OpIDPrefix) {
						c.Violate(id, "batch:slot-holds-other-calls-response", fmt.Sprintf("slot %d (%s) holds cells of %q: %s", i, opid, cell.Qualifier, b), b)
					}
				}
			}
			zeroOK := isGetOp(run, i) && sim.Hash32(opid)%7 == 0 && lr != nil && len(lr.Cells) == 0
			if lr == nil || (!own && !zeroOK) {
				c.Violate(id, "batch:slot-payload-not-own", fmt.Sprintf("slot %d (%s): response %v does not carry this call's payload: %s", i, opid, lr, b), b)
			}
			c.Count("slots_success_payload_checked", 1)
			if len(as) == 0 {
				c.Violate(id, "batch:success-without-execution", fmt.Sprintf("slot %d (%s) reports success but the call never reached a server: %s", i, opid, b), b)
			}
		}
		if res.Error != nil && strings.Contains(res.Error.Error(), fatalMarker) {
			c.Count("slots_own_error_checked", 1)
			if !strings.Contains(res.Error.Error(), fatalMarker+opid+"\n") && !strings.HasSuffix(strings.TrimSpace(res.Error.Error()), fatalMarker+opid) {
				c.Violate(id, "batch:slot-holds-other-calls-error", fmt.Sprintf("slot %d (%s) holds %v: %s", i, opid, res.Error, b), b)
			}
		}
		if i == run.OwnCtx && i == 0 && b.Trigger == "own-ctx-reply-held" {
			// inspected first, while the reply is still held: its own context error
			// (or, had the reply been faster, its response) are both right
			c.Count("own_context_calls_checked", 1)
			if res.Error != nil && !isCtxErr(res.Error) {
				c.Violate(id, "batch:own-context-error-missing", fmt.Sprintf("slot %d (%s): its own context was cancelled while the reply was held, the batch reports %v: %s", i, opid, res.Error, b), b)
			}
			continue
		}
		if i != run.OwnCtx && isCtxErr(res.Error) && run.CancelledAt == 0 && run.Elapsed < b.Deadline {
			// neither the batch context nor this call's context has ended
			c.Violate(id, "batch:context-error-in-wrong-slot", fmt.Sprintf("slot %d (%s) holds %v although only call %d's own context ended: %s", i, opid, res.Error, run.OwnCtx, b), b)
		}
		if i == run.OwnCtx && (b.Trigger == "own-ctx-sibling-retried" || b.Trigger == "own-ctx-while-locating" || b.Trigger == "own-ctx-retry-round-lookup") {
			// its reply is released only after SendBatch has returned: the call
			// must end with its own context error, nothing else is judged
			c.Count("own_context_calls_checked", 1)
			if !isCtxErr(res.Error) {
				c.Violate(id, "batch:own-context-error-missing", fmt.Sprintf("slot %d (%s): its own context was cancelled while it was unanswered, the batch reports %v: %s", i, opid, res.Error, b), b)
			}
			continue
		}
		if i == run.OwnCtx && b.Trigger == "own-ctx-reply-held" {
			c.Count("own_context_calls_checked", 1)
		}
		switch {
		case successDelivered:
			if res.Error != nil && !(cancelling && isCtxErr(res.Error)) {
				f := "batch:success-replaced-by-error"
				if i == run.OwnCtx {
					// (the response reached the client, with this call's result ahead of
					// the one SendBatch was waiting for, after the call's context ended)
					f = "batch:success-replaced-by-own-context-error"
				}
				if strings.Contains(res.Error.Error(), "table not found") {
					f = "batch:success-replaced-by-relocation-error-of-another-call"
				}
				c.Violate(id, f, fmt.Sprintf("slot %d (%s): the server executed it and delivered the response, the batch reports %v: %s", i, opid, res.Error, b), b)
			}
		case fatalDelivered:
			if res.Error == nil || (!strings.Contains(res.Error.Error(), fatalMarker+opid) && !(cancelling && isCtxErr(res.Error))) {
				c.Violate(id, "batch:own-error-lost", fmt.Sprintf("slot %d (%s): the server answered with its fatal error, the batch reports %v: %s", i, opid, res.Error, b), b)
			}
		}
		if res.Error == gohbase.NotExecutedError && len(as) > 0 {
			c.Violate(id, "batch:executed-call-keeps-placeholder", fmt.Sprintf("slot %d (%s) still holds the not-executed placeholder although it was sent %d time(s): %s", i, opid, len(as), b), b)
		}
	}
	if relocFailed {
		c.Count("relocation_failed_in_later_round", 1)
	}
	if run.AllOK != allNil {
		c.Violate(id, "batch:flag-inconsistent", fmt.Sprintf("allOK=%v but all-errors-nil=%v: %s", run.AllOK, allNil, b), b)
	}
}

func isGetOp(run *batchRun, i int) bool {
	switch run.Calls[i].(type) {
	case *hrpc.Get, *resultWatchGet:
		return true
	}
	return false
}

package props

import (
	"bytes"
	"context"
	"errors"
	"fmt"
	"log/slog"
	"net"
	"strings"
	"sync"
	"sync/atomic"
	"time"

	"verif/faultconn"
	"verif/fw"
	"verif/sim"

	"github.com/tsuna/gohbase"
	"github.com/tsuna/gohbase/hrpc"
)

// C17 — retries back off and never become a hot loop.
//
// Only lower bounds on time are judged (machine load can only lengthen a
// wait), and every timestamp is taken inside the client process at the moment
// the client calls the dialer / Write / ZooKeeper, so no transit latency enters.

func scheduleNext(b time.Duration) time.Duration {
	switch {
	case b == 0:
		return 16 * time.Millisecond
	case b < 5*time.Second:
		return 2 * b
	case b < 30*time.Second:
		return b + 5*time.Second
	}
	return b
}

// scheduleSteps returns the schedule from 16ms up to and including the first
// value that repeats.
func scheduleSteps() []time.Duration {
	var out []time.Duration
	b := 16 * time.Millisecond
	for {
		out = append(out, b)
		n := scheduleNext(b)
		if n == b {
			return out
		}
		b = n
	}
}

type stamps struct {
	mu sync.Mutex
	t  []time.Time
}

func (s *stamps) add() {
	s.mu.Lock()
	s.t = append(s.t, time.Now())
	s.mu.Unlock()
}

func (s *stamps) get() []time.Time {
	s.mu.Lock()
	defer s.mu.Unlock()
	return append([]time.Time(nil), s.t...)
}

// checkGaps verifies gap_j >= w_{j-free} for the recorded attempt times.
func checkGaps(c *fw.Ctx, id, what string, ts []time.Time, free int, descr string) (maxRate float64) {
	return checkGapsFn(c, id, what, ts, func(j int) int { return j - free }, descr)
}

// checkGapsFn verifies gap_j >= w_{step(j)} where step(j) < 0 means that the
// wait after attempt j is not constrained.
func checkGapsFn(c *fw.Ctx, id, what string, ts []time.Time, step func(j int) int, descr string) (maxRate float64) {
	free := 0
	sched := scheduleSteps()
	w := func(i int) time.Duration {
		if i >= len(sched) {
			return sched[len(sched)-1]
		}
		return sched[i]
	}
	for j := 0; j+1 < len(ts); j++ {
		gap := ts[j+1].Sub(ts[j])
		if step(j) < 0 {
			continue
		}
		need := w(step(j))
		c.Count("gaps_checked", 1)
		if gap < need {
			c.Violate(id, "backoff:retry-too-early:"+what, fmt.Sprintf("%s: attempt %d came %v after attempt %d, the schedule requires at least %v (free immediate retries: %d; attempts so far %d): %s",
				what, j+1, gap.Round(100*time.Microsecond), j, need, free, len(ts), descr), descr)
			break
		}
	}
	// attempts in any 1s window
	for i := range ts {
		n := 0
		for j := i; j < len(ts) && ts[j].Sub(ts[i]) < time.Second; j++ {
			n++
		}
		if float64(n) > maxRate {
			maxRate = float64(n)
		}
	}
	return
}

func c17Function(c *fw.Ctx, maxStep time.Duration) {
	var wg sync.WaitGroup
	steps := scheduleSteps()
	c.Begin("function-schedule", len(steps))
	// zero start
	n0, err := gohbase.VerifSleepAndIncreaseBackoff(context.Background(), 0)
	c.Eval("fn|0", true)
	if err != nil || n0 != 16*time.Millisecond {
		c.Violate("fn-0", "backoff:schedule-wrong", fmt.Sprintf("first backoff is %v (err %v), expected 16ms", n0, err), nil)
	}
	for _, b := range steps {
		if b > maxStep {
			continue
		}
		wg.Add(1)
		go func(b time.Duration) {
			defer wg.Done()
			t0 := time.Now()
			next, err := gohbase.VerifSleepAndIncreaseBackoff(context.Background(), b)
			el := time.Since(t0)
			c.Eval(fmt.Sprintf("fn|%v", b), true)
			c.Count("schedule_steps_verified", 1)
			switch {
			case err != nil:
				c.Violate(fmt.Sprintf("fn-%v", b), "backoff:schedule-wrong", fmt.Sprintf("sleepAndIncreaseBackoff(%v) failed: %v", b, err), nil)
			case el < b:
				c.Violate(fmt.Sprintf("fn-%v", b), "backoff:wait-too-short", fmt.Sprintf("waited %v for a backoff of %v", el, b), nil)
			case next != scheduleNext(b):
				c.Violate(fmt.Sprintf("fn-%v", b), "backoff:schedule-wrong", fmt.Sprintf("after %v the next backoff is %v, the schedule says %v", b, next, scheduleNext(b)), nil)
			}
		}(b)
	}
	// the values beyond maxStep: next value only (the wait is ended by cancellation)
	for _, b := range steps {
		if b <= maxStep {
			continue
		}
		ctx, cancel := context.WithCancel(context.Background())
		t0 := time.Now()
		time.AfterFunc(20*time.Millisecond, cancel)
		_, err := gohbase.VerifSleepAndIncreaseBackoff(ctx, b)
		c.Eval(fmt.Sprintf("fn-cancel|%v", b), true)
		c.Count("cancelled_waits_verified", 1)
		if !errors.Is(err, context.Canceled) || time.Since(t0) > 3*time.Second {
			c.Violate(fmt.Sprintf("fn-cancel-%v", b), "backoff:cancel-ignored", fmt.Sprintf("cancelled wait of %v returned %v after %v", b, err, time.Since(t0)), nil)
		}
	}
	wg.Wait()
}

type c17Scenario struct {
	Name    string
	Entry   string // get | batch
	Observe time.Duration
}

func runC17Scenario(c *fw.Ctx, sc c17Scenario, seed int64) {
	id := sc.Name + "/" + sc.Entry
	cl := sim.NewCluster(seed, 2)
	defer cl.Close()
	if sc.Entry == "batch2" {
		// two regions on two servers: the batch's first call (row a1, rs0) always
		// succeeds, its second call (row k1, rs1) is the one that keeps failing
		cl.CreateTable("t", [][]byte{[]byte("h")}, func(i int) string { return []string{"rs0:16020", "rs1:16020"}[i] })
	} else {
		cl.CreateTable("t", nil, func(int) string { return "rs1:16020" })
	}
	cl.EchoResults = true
	opid := sim.OpIDPrefix + "c17-" + sc.Name + "-" + sc.Entry
	var userWrites, probeWrites, metaWrites, dials, zks stamps
	zeros := make([]byte, 17)
	cl.WrapConn = func(addr string, conn net.Conn) net.Conn {
		fc := faultconn.New(conn, nil)
		fc.OnWrite = func(b []byte) {
			switch {
			case bytes.Contains(b, []byte(opid)):
				userWrites.add()
			case bytes.Contains(b, zeros) && addr == "rs1:16020":
				probeWrites.add()
			case bytes.Contains(b, []byte("t,k1,:")), bytes.Contains(b, []byte{0x22, 0x02, 't', '.'}):
				// a lookup of (t,k1) or the range scan [t, t.) of CacheRegions
				metaWrites.add()
			}
		}
		return fc
	}
	dial := cl.Dialer()
	dialer := func(ctx context.Context, network, addr string) (net.Conn, error) {
		if addr == "rs1:16020" {
			dials.add()
		}
		return dial(ctx, network, addr)
	}
	free := 0
	what := ""
	var stepFn func(j int) int
	var measured *stamps
	queue := 100
	switch sc.Name {
	case "too-busy-forever", "call-queue-forever", "region-opening-forever", "throttling-forever", "retry-immediately-forever", "please-hold-forever":
		// every class the client treats as "back off and resend to the same server"
		class := map[string]string{"too-busy-forever": sim.ExcTooBusy, "call-queue-forever": sim.ExcCallQueue, "region-opening-forever": sim.ExcRegionOpening,
			"throttling-forever": sim.ExcThrottling, "retry-immediately-forever": sim.ExcRetryImm, "please-hold-forever": sim.ExcPleaseHold}[sc.Name]
		cl.OnAction = func(req *sim.Request, a *sim.Action) *sim.Exc {
			if a.OpID == opid {
				return &sim.Exc{Class: class}
			}
			return nil
		}
		measured, what = &userWrites, "request-attempts"
	case "too-busy-and-not-serving-alternating":
		// attempts 0,2,4.. are answered retry-later, attempts 1,3,5.. not-serving
		// (the region probe succeeds): the waits after the retry-later answers
		// must keep growing along the schedule
		var n int32
		cl.OnAction = func(req *sim.Request, a *sim.Action) *sim.Exc {
			if a.OpID == opid {
				if atomic.AddInt32(&n, 1)%2 == 1 {
					return &sim.Exc{Class: sim.ExcTooBusy}
				}
				return &sim.Exc{Class: sim.ExcNSRE}
			}
			return nil
		}
		measured, what = &userWrites, "request-attempts"
		stepFn = func(j int) int {
			if j%2 == 0 {
				return j / 2
			}
			return -1
		}
	case "abort-abort-not-serving-repeating":
		// connection-level, connection-level, not-serving, repeated: after the two
		// free retries every connection-level answer is followed by a scheduled wait
		var n int32
		cl.OnAction = func(req *sim.Request, a *sim.Action) *sim.Exc {
			if a.OpID == opid {
				if atomic.AddInt32(&n, 1)%3 == 0 {
					return &sim.Exc{Class: sim.ExcNSRE}
				}
				return &sim.Exc{Class: sim.ExcAborted}
			}
			return nil
		}
		measured, what = &userWrites, "request-attempts"
		stepFn = func(j int) int {
			if j%3 == 2 {
				return -1 // after a not-serving answer
			}
			k := j - j/3 // number of connection-level answers before this one
			if k < 2 {
				return -1
			}
			return k - 2
		}
	case "not-serving-forever-probe-ok":
		// every request is answered not-serving although the region probe (a read
		// of the region) succeeds - what a regionserver with a closed WAL does to
		// writes. Each attempt is preceded by a re-establishment that succeeds at once.
		cl.OnAction = func(req *sim.Request, a *sim.Action) *sim.Exc {
			if a.OpID == opid {
				return &sim.Exc{Class: sim.ExcNSRE}
			}
			return nil
		}
		// (the attempt after the first not-serving answer follows a completed
		// re-establishment - the zero-wait first step of that schedule - so that a
		// moved region is followed at once; from then on the schedule applies)
		measured, what, free = &userWrites, "request-attempts", 1
	case "abort-exception-forever":
		cl.OnAction = func(req *sim.Request, a *sim.Action) *sim.Exc {
			if a.OpID == opid {
				return &sim.Exc{Class: sim.ExcAborted}
			}
			return nil
		}
		measured, what, free = &userWrites, "request-attempts", 2
	case "drop-on-user-frame":
		// the probe is answered, the connection dies on the request itself
		cl.OnRequest = func(req *sim.Request) *sim.Reply {
			hit := req.Single != nil && req.Single.OpID == opid
			for _, ra := range req.Multi {
				for _, a := range ra.Actions {
					if a.OpID == opid {
						hit = true
					}
				}
			}
			if hit {
				return &sim.Reply{Drop: true, KillConn: true}
			}
			return nil
		}
		measured, what, free = &userWrites, "request-attempts", 2
	case "drop-on-probe":
		cl.OnRequest = func(req *sim.Request) *sim.Reply {
			if req.Server == "rs1:16020" {
				return &sim.Reply{Drop: true, KillConn: true}
			}
			return nil
		}
		measured, what = &dials, "establishment-dials"
	case "dial-refused":
		cl.Server("rs1:16020").SetDown(true)
		measured, what = &dials, "establishment-dials"
	case "region-never-online":
		cl.SetOffline(cl.Regions("t")[0].Name, true)
		measured, what = &probeWrites, "establishment-probes"
	case "meta-silent":
		cl.OnRequest = func(req *sim.Request) *sim.Reply {
			if req.Scan != nil && string(req.Scan.GetRegion().GetValue()) == string(sim.MetaRegionName) {
				return &sim.Reply{Drop: true}
			}
			return nil
		}
		measured, what = &metaWrites, "meta-lookups"
	case "meta-lookup-error":
		cl.OnRequest = func(req *sim.Request) *sim.Reply {
			if req.Scan != nil && string(req.Scan.GetRegion().GetValue()) == string(sim.MetaRegionName) {
				return &sim.Reply{Exc: &sim.Exc{Class: sim.ExcDoNotRetry, Stack: "meta is broken"}}
			}
			return nil
		}
		measured, what = &metaWrites, "meta-lookups"
	case "zookeeper-errors":
		// (stamped where the client starts a lookup - its log statement, in the
		// goroutine that will wait for the answer - not where the ZooKeeper stand-in
		// gets to run: a starved lookup goroutine may run long after the client
		// gave that attempt up and would then look like a premature retry)
		cl.ZKErr = func() error { return errors.New("zk is down") }
		measured, what = &zks, "zookeeper-lookups"
	}
	logger := slog.New(&hookHandler{f: func(msg string) {
		if msg == "looking up region server of hbase:meta" {
			zks.add()
		}
	}})
	client := gohbase.VerifNewClient(cl.ZK(), gohbase.RegionDialer(dialer), gohbase.Logger(logger), gohbase.RpcQueueSize(queue),
		gohbase.FlushInterval(time.Millisecond), gohbase.RegionLookupTimeout(150*time.Millisecond), gohbase.RegionReadTimeout(2*time.Second))
	ctx, cancel := context.WithTimeout(context.Background(), sc.Observe)
	defer cancel()
	done := make(chan error, 1)
	go func() {
		g, _ := hrpc.NewGet(ctx, []byte("t"), []byte("k1"), hrpc.Families(map[string][]string{"echo": {opid}}))
		if sc.Entry == "cache-regions" {
			// no context to cancel: the observation ends with Close()
			time.AfterFunc(sc.Observe, func() { within(3*time.Second, client.Close) })
			done <- client.CacheRegions([]byte("t"))
			return
		}
		if sc.Entry == "batch2" {
			g0, _ := hrpc.NewGet(ctx, []byte("t"), []byte("a1"), hrpc.Families(map[string][]string{"echo": {sim.OpIDPrefix + "bystander-" + sc.Name}}))
			res, _ := client.SendBatch(ctx, []hrpc.Call{g0, g})
			if res[0].Error != nil {
				c.Violate(id, "backoff:bystander-failed", fmt.Sprintf("the batch's first call (healthy region) ended with %v", res[0].Error), sc)
			}
			done <- res[1].Error
			return
		}
		if sc.Entry == "batch" {
			res, _ := client.SendBatch(ctx, []hrpc.Call{g})
			done <- res[0].Error
			return
		}
		_, err := client.Get(g)
		done <- err
	}()
	var err error
	select {
	case err = <-done:
	case <-time.After(sc.Observe + 5*time.Second):
		c.Violate(id, "backoff:request-ignores-deadline", fmt.Sprintf("request did not return %v after its deadline", 5*time.Second), sc)
	}
	ended := time.Now()
	// a wait ends early only through cancellation: the request must end with the context error
	if err == nil {
		c.Violate(id, "backoff:unexpected-success", "request succeeded against a persistently failing target", sc)
	}
	ts := measured.get()
	descr := fmt.Sprintf("scenario=%s entry=%s observed=%v attempts=%d final-error=%v", sc.Name, sc.Entry, sc.Observe, len(ts), err)
	c.Count("scenarios", 1)
	c.Count("attempts_observed", int64(len(ts)))
	if len(ts) < 4 {
		c.Inconclusive("too-few-attempts:" + sc.Name)
	}
	var rate float64
	if stepFn != nil {
		if sc.Entry == "batch" {
			stepFn = nil // mixed-answer scenarios are defined for single calls
		}
	}
	if stepFn != nil {
		rate = checkGapsFn(c, id, what, ts, stepFn, descr)
	} else if !strings.Contains(sc.Name, "alternating") && !strings.Contains(sc.Name, "repeating") {
		rate = checkGaps(c, id, what, ts, free, descr)
	}
	c.Max("max_attempts_in_any_second", int64(rate))
	c.Sample(descr)
	within(3*time.Second, client.Close)
	_ = ended
}

func init() {
	fw.Register(&fw.Prop{
		ID:    "C17",
		Level: "exploration",
		Rule: "(i) the real back-off function is executed for every step of the schedule (quick: waits up to 8.192 s, thorough: up " +
			"to 33.192 s, in parallel) and for the start value 0; elapsed >= step and the returned next value are compared with " +
			"an independently computed schedule; waits beyond the tier's limit are ended by cancellation (must return the " +
			"context error promptly). (ii) persistent-failure scenarios {too-busy / call-queue / region-opening / throttling / retry-immediately / please-hold forever, abort " +
			"exception forever, connection dropped on the request, on the probe, dial refused, region never online, meta " +
			"silent, meta lookup error, ZooKeeper errors; retry-later alternating with not-serving; two connection-level answers then " +
			"not-serving, repeated} x {single call, batch; CacheRegions for the meta and ZooKeeper scenarios}: client-side timestamps of consecutive attempts " +
			"must satisfy gap_j >= w_(j-free) with free = 2 only for connection-level failures of a request. distinct = " +
			"schedule step / scenario x entry point; all non-trivial",
		Assumptions: []string{"timestamps are taken in the client's goroutines (dialer, Write, ZooKeeper call): only lower bounds are judged"},
		Plan: func(tier string) fw.Plan {
			if tier == "thorough" {
				return fw.Plan{Batches: 4, Parallel: 4, Timeout: 30 * time.Minute}
			}
			return fw.Plan{Batches: 2, Parallel: 2, Timeout: 6 * time.Minute}
		},
		Floors: func(tier string) map[string]int64 {
			return map[string]int64{"schedule_steps_verified": 10, "scenarios": 34, "gaps_checked": 100, "attempts_observed": 120}
		},
		Run: func(c *fw.Ctx) {
			maxStep := 8200 * time.Millisecond
			observe := 6 * time.Second
			if !c.Quick() {
				maxStep = 34 * time.Second
				observe = 70 * time.Second
			}
			var wg sync.WaitGroup
			if c.Batch == 0 {
				wg.Add(1)
				go func() { defer wg.Done(); c17Function(c, maxStep) }()
			}
			names := []string{"too-busy-forever", "call-queue-forever", "region-opening-forever", "throttling-forever", "retry-immediately-forever", "please-hold-forever", "abort-exception-forever", "drop-on-user-frame",
				"too-busy-and-not-serving-alternating", "abort-abort-not-serving-repeating",
				"not-serving-forever-probe-ok", "drop-on-probe", "dial-refused", "region-never-online", "meta-silent", "meta-lookup-error", "zookeeper-errors"}
			k := 0
			for _, n := range names {
				entries := []string{"get", "batch"}
				if n == "meta-silent" || n == "meta-lookup-error" || n == "zookeeper-errors" {
					entries = append(entries, "cache-regions")
				}
				if n == "drop-on-user-frame" || n == "abort-exception-forever" || n == "too-busy-forever" {
					entries = append(entries, "batch2")
				}
				for _, e := range entries {
					k++
					if k%c.NBatches != c.Batch {
						continue
					}
					sc := c17Scenario{Name: n, Entry: e, Observe: observe}
					c.Eval("scenario|"+n+"|"+e, true)
					wg.Add(1)
					go func() { defer wg.Done(); runC17Scenario(c, sc, c.Seed+int64(k)) }()
				}
			}
			wg.Wait()
		},
	})
}

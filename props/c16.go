package props

import (
	"bytes"
	"fmt"
	"sort"
	"sync"
	"time"

	"verif/fw"

	"github.com/tsuna/gohbase"
	"github.com/tsuna/gohbase/region"
)

// C16 — region names are totally ordered by table, start key, then id.
//
// Monitor: the real comparator (region.Compare) is run on every ordered pair of
// an enumerated set of well-formed names and compared with the tuple order on
// the components the name was *built* from (never parsed).

type rname struct {
	table, key, id []byte
	name           []byte
}

func mkName(table, key, id []byte) rname {
	n := make([]byte, 0, len(table)+len(key)+len(id)+2)
	n = append(n, table...)
	n = append(n, ',')
	n = append(n, key...)
	n = append(n, ',')
	n = append(n, id...)
	return rname{table, key, id, n}
}

func tupleCmp(a, b rname) int {
	if c := bytes.Compare(a.table, b.table); c != 0 {
		return c
	}
	if c := bytes.Compare(a.key, b.key); c != 0 {
		return c
	}
	return bytes.Compare(a.id, b.id)
}

func sign(x int) int {
	switch {
	case x < 0:
		return -1
	case x > 0:
		return 1
	}
	return 0
}

func keysOver(alpha []byte, maxLen int) [][]byte {
	out := [][]byte{{}}
	prev := [][]byte{{}}
	for l := 1; l <= maxLen; l++ {
		var cur [][]byte
		for _, p := range prev {
			for _, b := range alpha {
				k := append(append([]byte{}, p...), b)
				cur = append(cur, k)
			}
		}
		out = append(out, cur...)
		prev = cur
	}
	return out
}

func c16Names(tier string) []rname {
	tables := []string{"a", "ab", "a-", "a.", "a_", "a0", "ns:a", "b"}
	alpha := []byte{0x00, '+', ',', '-', '0', 'a', 0xff}
	ids := []string{"1", "12", "2", "1.h.", "12.h."}
	maxLen := 2
	if tier == "thorough" {
		maxLen = 3
	}
	keys := keysOver(alpha, maxLen)
	var names []rname
	for _, t := range tables {
		for _, k := range keys {
			for _, id := range ids {
				names = append(names, mkName([]byte(t), k, []byte(id)))
			}
		}
	}
	return names
}

func safeCompare(a, b []byte) (r int, panicked any) {
	defer func() {
		if p := recover(); p != nil {
			panicked = p
		}
	}()
	return region.Compare(a, b), nil
}

func init() {
	fw.Register(&fw.Prop{
		ID:    "C16",
		Level: "exploration",
		Rule: "all ordered pairs (a,b), a!=b, of an enumerated set of well-formed region names " +
			"(8 tables incl. prefixes/namespace x all start keys up to length 2 (quick) / 3 (thorough) over " +
			"{00,'+',',','-','0','a',ff} x 5 ids); every pair is distinct by construction and non-trivial when " +
			"a!=b; plus all triples of a 300-name subset, all (search key,name) pairs and seeded random long names",
		Assumptions: []string{
			"well-formed names only: table over the legal alphabet (no byte <= ','), id without comma",
			"the oracle is bytes.Compare on the components the name was built from",
		},
		Plan: func(tier string) fw.Plan {
			if tier == "thorough" {
				return fw.Plan{Batches: 32, Parallel: 16, Timeout: 20 * time.Minute}
			}
			return fw.Plan{Batches: 4, Parallel: 4, Timeout: 5 * time.Minute}
		},
		Floors: func(tier string) map[string]int64 {
			return map[string]int64{"evaluations": 1000000, "pairs_checked": 1000000,
				"searchkey_pairs": 10000, "triples_checked": 100000}
		},
		Run: runC16,
	})
}

func runC16(c *fw.Ctx) {
	names := c16Names(c.Tier)
	n := len(names)
	c.Begin("pairs", map[string]int{"names": n})
	for _, k := range []int{3, n / 3, n / 2, n - 7} {
		j := (k*7 + c.Batch*131) % n
		r, _ := safeCompare(names[k].name, names[j].name)
		c.Sample(map[string]any{"a": fmt.Sprintf("%q", names[k].name), "b": fmt.Sprintf("%q", names[j].name), "Compare": sign(r), "tuple_order": tupleCmp(names[k], names[j])})
	}
	// classes hit
	var mu sync.Mutex
	viol := 0
	report := func(kind string, a, b rname, got, want int) {
		mu.Lock()
		defer mu.Unlock()
		viol++
		if viol > 20 {
			return
		}
		c.Violate(fmt.Sprintf("pair %q %q", a.name, b.name), "order:"+kind,
			fmt.Sprintf("Compare(%q,%q)=%d, tuple order says %d", a.name, b.name, got, want),
			map[string]string{"a": string(a.name), "b": string(b.name)})
	}
	// rows of the pair matrix are partitioned over batches
	var wg sync.WaitGroup
	workers := 4
	rows := make(chan int, 64)
	var pairs, prefixTbl, commaKey, emptyKey, idLen int64
	for w := 0; w < workers; w++ {
		wg.Add(1)
		go func() {
			defer wg.Done()
			var lp, lpre, lcomma, lempty, lid int64
			for i := range rows {
				a := names[i]
				for j := 0; j < n; j++ {
					b := names[j]
					got, p := safeCompare(a.name, b.name)
					if p != nil {
						report("panic", a, b, 0, tupleCmp(a, b))
						continue
					}
					want := tupleCmp(a, b)
					if sign(got) != want {
						report("pair", a, b, got, want)
					}
					if i == j {
						continue
					}
					lp++
					if !bytes.Equal(a.table, b.table) && (bytes.HasPrefix(a.table, b.table) || bytes.HasPrefix(b.table, a.table)) {
						lpre++
					}
					if bytes.IndexByte(a.key, ',') >= 0 || bytes.IndexByte(b.key, ',') >= 0 {
						lcomma++
					}
					if len(a.key) == 0 || len(b.key) == 0 {
						lempty++
					}
					if len(a.id) != len(b.id) {
						lid++
					}
				}
			}
			mu.Lock()
			pairs += lp
			prefixTbl += lpre
			commaKey += lcomma
			emptyKey += lempty
			idLen += lid
			mu.Unlock()
		}()
	}
	for i := c.Batch; i < n; i += c.NBatches {
		rows <- i
	}
	close(rows)
	wg.Wait()
	c.EvalDistinctN(pairs)
	c.Count("pairs_checked", pairs)
	c.Count("class_prefix_tables", prefixTbl)
	c.Count("class_comma_in_key", commaKey)
	c.Count("class_empty_key", emptyKey)
	c.Count("class_unequal_id_len", idLen)
	c.Count("names", int64(n))

	// antisymmetry/reflexivity are implied by agreement with a total order on
	// all ordered pairs; transitivity likewise, but check triples directly on a
	// subset with the real comparator only (no oracle involved).
	rng := c.Rand("triples")
	sub := make([]rname, 0, 300)
	for _, i := range rng.Perm(n)[:min(300, n)] {
		sub = append(sub, names[i])
	}
	m := len(sub)
	mat := make([][]int8, m)
	for i := range mat {
		mat[i] = make([]int8, m)
		for j := range mat[i] {
			r, _ := safeCompare(sub[i].name, sub[j].name)
			mat[i][j] = int8(sign(r))
		}
	}
	var triples int64
	for i := 0; i < m; i++ {
		for j := 0; j < m; j++ {
			if mat[i][j] >= 0 {
				continue
			}
			for k := 0; k < m; k++ {
				if mat[j][k] < 0 {
					triples++
					if mat[i][k] >= 0 {
						c.Violate(fmt.Sprintf("triple %q %q %q", sub[i].name, sub[j].name, sub[k].name),
							"order:transitivity", "a<b, b<c but not a<c", nil)
					}
				}
			}
		}
	}
	c.EvalN(triples)
	c.Count("triples_checked", triples)

	// search keys: "table,key,:" must sort after every name of that table with
	// start key <= key and before every name with start key > key; and after all
	// names of smaller tables / before all names of greater tables.
	alpha := []byte{0x00, '+', ',', '-', '0', 'a', 0xff}
	probeKeys := keysOver(alpha, 2)
	var sk int64
	step := 1
	if c.Quick() {
		step = 3
	}
	for ti, t := range []string{"a", "ab", "a-", "ns:a", "b"} {
		for pi, pk := range probeKeys {
			if (pi+ti+c.Batch)%c.NBatches != 0 {
				continue
			}
			s := gohbase.VerifCreateRegionSearchKey([]byte(t), pk)
			for j := (pi % step); j < n; j += step {
				b := names[j]
				got, p := safeCompare(s, b.name)
				if p != nil {
					c.Violate(fmt.Sprintf("searchkey %q vs %q", s, b.name), "order:panic", fmt.Sprint(p), nil)
					continue
				}
				want := 1
				if tc := bytes.Compare([]byte(t), b.table); tc < 0 {
					want = -1
				} else if tc == 0 && bytes.Compare(pk, b.key) < 0 {
					want = -1
				}
				sk++
				if sign(got) != want {
					c.Violate(fmt.Sprintf("searchkey %q vs %q", s, b.name), "order:searchkey",
						fmt.Sprintf("Compare(%q,%q)=%d want sign %d", s, b.name, got, want), nil)
				}
				got2, _ := safeCompare(b.name, s)
				if sign(got2) != -want {
					c.Violate(fmt.Sprintf("searchkey %q vs %q", b.name, s), "order:searchkey",
						fmt.Sprintf("Compare(%q,%q)=%d want sign %d", b.name, s, got2, -want), nil)
				}
			}
		}
	}
	c.EvalN(sk)
	c.Count("searchkey_pairs", sk)

	// seeded random long names and keys; sort agreement
	rr := c.Rand("random")
	tablesR := []string{"t", "tt", "t1", "t-", "t.", "t_", "ns:t", "ns:t1", "n", "zz_9.x-"}
	var rnd int64
	for round := 0; round < c.Pick(200, 2000); round++ {
		set := make([]rname, 0, 24)
		for i := 0; i < 24; i++ {
			kl := rr.Intn(12)
			if rr.Intn(8) == 0 {
				kl = 100 + rr.Intn(300)
			}
			k := make([]byte, kl)
			for x := range k {
				switch rr.Intn(4) {
				case 0:
					k[x] = alpha[rr.Intn(len(alpha))]
				default:
					k[x] = byte(rr.Intn(256))
				}
			}
			if len(set) > 0 && rr.Intn(3) == 0 { // share a prefix with an earlier key
				o := set[rr.Intn(len(set))].key
				k = append(append([]byte{}, o[:rr.Intn(len(o)+1)]...), k[:rr.Intn(len(k)+1)]...)
			}
			id := fmt.Sprintf("%d", 1400000000000+rr.Int63n(1000)*int64(1+rr.Intn(1000)))
			if rr.Intn(2) == 0 {
				id += ".0123456789abcdef0123456789abcdef."
			}
			set = append(set, mkName([]byte(tablesR[rr.Intn(len(tablesR))]), k, []byte(id)))
		}
		a := append([]rname{}, set...)
		b := append([]rname{}, set...)
		sort.SliceStable(a, func(i, j int) bool { r, _ := safeCompare(a[i].name, a[j].name); return r < 0 })
		sort.SliceStable(b, func(i, j int) bool { return tupleCmp(b[i], b[j]) < 0 })
		for i := range a {
			rnd++
			if !bytes.Equal(a[i].name, b[i].name) {
				c.Violate(fmt.Sprintf("sort round %d", round), "order:sort",
					fmt.Sprintf("position %d: Compare-sorted %q, tuple-sorted %q", i, a[i].name, b[i].name), nil)
				break
			}
		}
		for i := 0; i < len(set); i++ {
			for j := 0; j < len(set); j++ {
				got, p := safeCompare(set[i].name, set[j].name)
				if p != nil || sign(got) != tupleCmp(set[i], set[j]) {
					report("random", set[i], set[j], got, tupleCmp(set[i], set[j]))
				}
				c.Eval(string(set[i].name)+"|"+string(set[j].name), i != j)
			}
		}
	}
	c.Count("random_sorted_positions", rnd)
	if c.NBatches > 0 {
		c.SetExhaustive()
	}
}

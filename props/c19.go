package props

import (
	"context"
	"errors"
	"fmt"
	"io"
	"log/slog"
	"math/rand"
	"runtime"
	"strings"
	"sync"
	"sync/atomic"
	"time"

	"verif/fw"
	"verif/sim"

	"github.com/tsuna/gohbase"
	"github.com/tsuna/gohbase/hrpc"
)

// C19 — Close is terminal and leaves nothing running.

// hookHandler is a slog.Handler that lets the harness act at the client's log
// statements (real preemption points outside the client's locks).
type hookHandler struct {
	f  func(msg string)
	fa func(msg string, attrs map[string]string) // with attributes rendered as strings
}

func (h *hookHandler) Enabled(context.Context, slog.Level) bool { return true }
func (h *hookHandler) Handle(_ context.Context, r slog.Record) error {
	if h.f != nil {
		h.f(r.Message)
	}
	if h.fa != nil {
		m := map[string]string{}
		r.Attrs(func(a slog.Attr) bool { m[a.Key] = a.Value.String(); return true })
		h.fa(r.Message, m)
	}
	return nil
}
func (h *hookHandler) WithAttrs([]slog.Attr) slog.Handler { return h }
func (h *hookHandler) WithGroup(string) slog.Handler      { return h }

func gohbaseGoroutines() (n int, dump string) {
	buf := make([]byte, 4<<20)
	buf = buf[:runtime.Stack(buf, true)]
	for _, g := range strings.Split(string(buf), "\n\n") {
		if strings.Contains(g, "tsuna/gohbase.(*client)") || strings.Contains(g, "tsuna/gohbase/region.(*client)") ||
			strings.Contains(g, "tsuna/gohbase.(*scanner)") || strings.Contains(g, "tsuna/gohbase.sleepAndIncreaseBackoff") {
			n++
			dump += g + "\n\n"
		}
	}
	return
}

type c19Case struct {
	Seed    int64
	Point   string // instant | before-dial | during-dial | during-probe | during-meta-lookup | during-backoff | during-long-backoff | zk-failing | zk-blocked | scanner-open | batch
	Callers int
	DelayUS int
}

func (c c19Case) String() string {
	return fmt.Sprintf("close-point=%s callers=%d delay=%dus", c.Point, c.Callers, c.DelayUS)
}

func isClosedErr(err error) bool {
	return err != nil && (errors.Is(err, gohbase.ErrClientClosed) || strings.Contains(err.Error(), "client is closed"))
}

func runC19Case(c *fw.Ctx, id string, cs c19Case) {
	if n, _ := gohbaseGoroutines(); n != 0 {
		time.Sleep(200 * time.Millisecond)
		if n, _ = gohbaseGoroutines(); n != 0 {
			c.Inconclusive("census-dirty-at-start")
			return
		}
	}
	r := rand.New(rand.NewSource(cs.Seed))
	cl := sim.NewCluster(cs.Seed, 2)
	defer cl.Close()
	cl.CreateTable("t", [][]byte{[]byte("g"), []byte("n"), []byte("t")}, nil)
	cl.EchoResults = true
	cl.ScanPolicy = sim.DefaultScanPolicy
	cl.Load("t", cellsFor("a1", 2))
	cl.Load("t", cellsFor("h1", 2))
	cl.Load("t", cellsFor("p1", 2))
	dl := &dialLog{}
	trigger := make(chan struct{}, 1)
	fire := func() {
		select {
		case trigger <- struct{}{}:
		default:
		}
	}
	closeReturned := make(chan struct{})
	var closed int32
	hold := make(chan struct{})
	var holdOnce sync.Once
	release := func() { holdOnce.Do(func() { close(hold) }) }
	defer release()
	var fired int32
	once := func() bool { return atomic.CompareAndSwapInt32(&fired, 0, 1) }
	logf := func(msg string) {}
	var longBackoffOp atomic.Value
	switch cs.Point {
	case "before-dial":
		logf = func(msg string) {
			if msg == "added new region client" && once() {
				fire()
				select { // hold the establisher right before Dial until Close has returned
				case <-closeReturned:
				case <-time.After(5 * time.Second):
				}
			}
		}
	case "during-dial":
		cl.DialDelay = func(addr string, n int) time.Duration {
			if once() {
				fire()
				if cs.Seed%2 == 0 {
					// a dial that would take far longer than everything below waits for:
					// Close has to interrupt it (the dialer honours its context)
					return 1500 * time.Millisecond
				}
				return 150 * time.Millisecond
			}
			return 0
		}
	case "during-probe":
		cl.OnRequest = func(req *sim.Request) *sim.Reply {
			if req.Single != nil && req.Single.Kind() == "exists" && string(req.Single.Region) != string(sim.MetaRegionName) && once() {
				fire()
				return &sim.Reply{HoldDefault: hold}
			}
			return nil
		}
	case "during-meta-lookup":
		cl.OnRequest = func(req *sim.Request) *sim.Reply {
			if req.Scan != nil && string(req.Scan.GetRegion().GetValue()) == string(sim.MetaRegionName) && once() {
				fire()
				return &sim.Reply{HoldDefault: hold}
			}
			return nil
		}
	case "during-backoff":
		var n int32
		cl.OnAction = func(req *sim.Request, a *sim.Action) *sim.Exc {
			if a.OpID != "" && atomic.AddInt32(&n, 1) <= 40 {
				if atomic.LoadInt32(&n) == 6 {
					fire()
				}
				return &sim.Exc{Class: sim.ExcTooBusy}
			}
			return nil
		}
	case "during-long-backoff":
		// every get/put/batch action is answered "region too busy" for good; Close
		// arrives when some call has just failed for the ninth time, i.e. at the
		// beginning of a retry back-off sleep of 16ms * 2^8 = 4.096s
		// (the same for the two other kinds of answer that are retried with a
		// back-off: "not serving" while the region stays online - first retry
		// immediate, so the tenth failure - and a server-class exception that takes
		// the connection down - two immediate retries, the eleventh failure)
		var perOp sync.Map
		class, at := sim.ExcTooBusy, int32(9)
		switch cs.Seed % 3 {
		case 1:
			class, at = sim.ExcNSRE, 10
		case 2:
			class, at = sim.ExcAborted, 11
		}
		c.Count("long_backoff_after_"+class[strings.LastIndex(class, ".")+1:], 1)
		cl.OnAction = func(req *sim.Request, a *sim.Action) *sim.Exc {
			if a.OpID == "" {
				return nil
			}
			v, _ := perOp.LoadOrStore(a.OpID, new(int32))
			if atomic.AddInt32(v.(*int32), 1) == at && once() {
				longBackoffOp.Store(a.OpID)
				fire()
			}
			return &sim.Exc{Class: class}
		}
	case "during-establish-backoff":
		// rs1 refuses connections: the regions it hosts keep failing to be
		// established; Close arrives while an establisher sleeps between attempts
		cl.DialFault = func(addr string, n int) error {
			if addr == "rs1:16020" {
				if n == 7 {
					fire()
				}
				return errors.New("connection refused (injected)")
			}
			return nil
		}
	case "after-lonely-split":
		// handled below: a connection that has lost all its regions before Close
	case "zk-blocked":
		// ZooKeeper does not answer until Close has returned
		cl.ZKBlock = hold
		logf = func(msg string) {
			if msg == "looking up region server of hbase:meta" && once() {
				fire()
			}
		}
	case "zk-failing":
		var n int32
		cl.ZKErr = func() error {
			if atomic.AddInt32(&n, 1) == 3 {
				fire()
			}
			return errors.New("zk unavailable")
		}
	}
	logger := slog.New(&hookHandler{f: logf})
	client := gohbase.VerifNewClient(cl.ZK(), gohbase.RegionDialer(trackingDialer(cl, dl, nil)), gohbase.Logger(logger),
		gohbase.RpcQueueSize([]int{1, 100}[r.Intn(2)]), gohbase.FlushInterval(time.Millisecond),
		gohbase.RegionLookupTimeout(2*time.Second), gohbase.RegionReadTimeout(2*time.Second))
	type callRec struct {
		kind     string
		opid     string
		start    time.Time
		end      time.Time
		err      error
		returned int32
	}
	var mu sync.Mutex
	var calls []*callRec
	var wg sync.WaitGroup
	stopIssuing := make(chan struct{})
	doCall := func(rr *rand.Rand, g, k int) {
		rec := &callRec{start: time.Now()}
		mu.Lock()
		calls = append(calls, rec)
		mu.Unlock()
		ctx := context.Background()
		key := string([]byte{byte('a' + rr.Intn(26)), byte('0' + rr.Intn(10))})
		opid := fmt.Sprintf("%s%s-%d-%d", sim.OpIDPrefix, id, g, k)
		rec.opid = opid
		kinds := []string{"get", "put", "batch", "scan", "get", "put", "batch", "scan", "cache-regions", "scan-abandon"}
		rec.kind = kinds[rr.Intn(len(kinds))]
		if cs.Point == "scanner-open" {
			rec.kind = "scan"
		} else if cs.Point == "batch" {
			rec.kind = "batch"
		}
		switch rec.kind {
		case "get":
			gt, _ := hrpc.NewGetStr(ctx, "t", key, hrpc.Families(map[string][]string{"echo": {opid}}))
			_, rec.err = client.Get(gt)
		case "put":
			p, _ := hrpc.NewPutStr(ctx, "t", key, map[string]map[string][]byte{"f": {opid: []byte("v")}})
			_, rec.err = client.Put(p)
		case "batch":
			var b []hrpc.Call
			for i := 0; i < 1+rr.Intn(5); i++ {
				p, _ := hrpc.NewPutStr(ctx, "t", string([]byte{byte('a' + rr.Intn(26))}), map[string]map[string][]byte{"f": {fmt.Sprintf("%s-%d", opid, i): []byte("v")}})
				b = append(b, p)
			}
			res, ok := client.SendBatch(ctx, b)
			if !ok {
				// one slot carries the reason, the others may hold the
				// "not executed because of another error" placeholder
				for _, x := range res {
					if x.Error != nil && (rec.err == nil || !isClosedErr(rec.err)) {
						rec.err = x.Error
					}
				}
			}
		case "scan-abandon":
			// a scanner with lease renewal is opened, read once and then forgotten
			// (no further Next, no Close): its renewer must end with the client
			s, _ := hrpc.NewScanStr(ctx, "t", hrpc.NumberOfRows(1), hrpc.RenewInterval(5*time.Millisecond), hrpc.Attribute("opid", []byte(opid)))
			sc := client.Scan(s)
			if _, err := sc.Next(); err != nil && err != io.EOF {
				rec.err = err
			} else if err == nil {
				c.Count("abandoned_renewing_scanners", 1)
			}
		case "cache-regions":
			rec.err = client.CacheRegions([]byte("t"))
			c.Count("cache_regions_calls", 1)
		case "scan":
			s, _ := hrpc.NewScanStr(ctx, "t", hrpc.NumberOfRows(1), hrpc.Attribute("opid", []byte(opid)))
			sc := client.Scan(s)
			for {
				_, err := sc.Next()
				if err != nil {
					if err != io.EOF {
						rec.err = err
					}
					break
				}
				if cs.Point == "scanner-open" {
					fire()
					time.Sleep(time.Millisecond)
				}
			}
			sc.Close()
		}
		rec.end = time.Now()
		atomic.StoreInt32(&rec.returned, 1)
	}
	if cs.Point == "after-lonely-split" {
		// the last region ("t".."") is alone on rs1; it splits and its daughters
		// open on rs0: the healthy connection to rs1 serves no region any more,
		// and Close must still close it
		regs := cl.Regions("t")
		last := regs[len(regs)-1]
		for _, rg := range regs[:len(regs)-1] {
			cl.MoveRegion(rg.Name, "rs0:16020")
		}
		cl.MoveRegion(last.Name, "rs1:16020")
		wctx, wc := context.WithTimeout(context.Background(), 10*time.Second)
		for _, k := range []string{"a1", "u1"} {
			g, _ := hrpc.NewGetStr(wctx, "t", k)
			client.Get(g)
		}
		if _, err := cl.SplitRegion(last.Name, []byte("w"), "rs0:16020", "rs0:16020"); err == nil {
			for _, k := range []string{"u1", "x1"} {
				g, _ := hrpc.NewGetStr(wctx, "t", k)
				client.Get(g)
			}
			c.Count("lonely_splits_before_close", 1)
		}
		wc()
		fire()
	}
	for g := 0; g < cs.Callers; g++ {
		wg.Add(1)
		go func(g int) {
			defer wg.Done()
			rr := rand.New(rand.NewSource(cs.Seed*100 + int64(g)))
			for k := 0; k < 40; k++ {
				select {
				case <-stopIssuing:
					return
				default:
				}
				doCall(rr, g, k)
				if atomic.LoadInt32(&closed) == 1 && k > 2 {
					return
				}
			}
		}(g)
	}
	// when to close
	switch cs.Point {
	case "instant", "batch":
		time.Sleep(time.Duration(cs.DelayUS) * time.Microsecond)
	default:
		select {
		case <-trigger:
			time.Sleep(time.Duration(cs.DelayUS%500) * time.Microsecond)
		case <-time.After(12 * time.Second):
			c.Inconclusive("close-point-not-reached:" + cs.Point)
		}
	}
	inFlight := 0
	mu.Lock()
	for _, rec := range calls {
		if atomic.LoadInt32(&rec.returned) == 0 {
			inFlight++
		}
	}
	mu.Unlock()
	tClose := time.Now()
	if !within(5*time.Second, client.Close) {
		c.Violate(id, "close:close-blocks", "Close did not return within 5s: "+cs.String(), cs.String())
		return
	}
	tClosed := time.Now()
	atomic.StoreInt32(&closed, 1)
	close(closeReturned)
	c.Count("calls_in_flight_at_close", int64(inFlight))
	c.Count("close_point_"+cs.Point, 1)
	release()
	// in-flight calls return promptly (a call inside a legitimate bounded
	// back-off sleep may finish it: the largest here is well below 3s)
	allBack := within(8*time.Second, wg.Wait)
	close(stopIssuing)
	_ = tClose
	if !allBack {
		n := 0
		mu.Lock()
		for _, rec := range calls {
			if atomic.LoadInt32(&rec.returned) == 0 {
				n++
			}
		}
		mu.Unlock()
		_, dump := gohbaseGoroutines()
		c.Violate(id, "close:call-blocked-after-close", fmt.Sprintf("%d call(s) still blocked 8s after Close returned: %s\n%s", n, cs, firstLines(dump, 40)), cs.String())
	}
	// calls that were running at or started after Close: error identity
	mu.Lock()
	if fired, _ := longBackoffOp.Load().(string); fired != "" {
		// the call that had just begun a 4.096s back-off sleep when Close was called
		for _, rec := range calls {
			if fired != rec.opid && !(rec.kind == "batch" && strings.HasPrefix(fired, rec.opid+"-")) {
				continue
			}
			c.Count("calls_in_a_long_backoff_at_close", 1)
			if atomic.LoadInt32(&rec.returned) == 1 && rec.end.After(tClosed) {
				if d := rec.end.Sub(tClosed); d > 2*time.Second {
					c.Violate(id, "close:in-flight-call-sleeps-on-after-close:"+rec.kind, fmt.Sprintf("a %s that was %v into a 4.096s retry back-off when Close was called returned %v after Close had returned (err=%v): %s",
						rec.kind, tClose.Sub(rec.start).Round(time.Millisecond), d.Round(time.Millisecond), rec.err, cs), cs.String())
				}
			}
		}
	}
	for _, rec := range calls {
		if atomic.LoadInt32(&rec.returned) == 0 {
			continue
		}
		if rec.start.After(tClosed) {
			c.Count("post_close_calls", 1)
			if !isClosedErr(rec.err) {
				c.Violate(id, "close:call-after-close-not-refused", fmt.Sprintf("%s issued after Close returned ended with %v instead of the client-closed error: %s", rec.kind, rec.err, cs), cs.String())
			} else if d := rec.end.Sub(rec.start); d > 3*time.Second {
				c.Violate(id, "close:call-after-close-slow", fmt.Sprintf("%s issued after Close took %v: %s", rec.kind, d, cs), cs.String())
			}
		} else if rec.end.After(tClosed) && rec.err != nil && !isClosedErr(rec.err) {
			c.Violate(id, "close:in-flight-call-wrong-error", fmt.Sprintf("%s in flight at Close ended with %v: %s", rec.kind, rec.err, cs), cs.String())
		}
	}
	mu.Unlock()
	// one more call after everything returned
	{
		var err error
		ok := within(3*time.Second, func() {
			gt, _ := hrpc.NewGetStr(context.Background(), "t", "zz9")
			_, err = client.Get(gt)
		})
		c.Count("post_close_calls", 1)
		if !ok || !isClosedErr(err) {
			c.Violate(id, "close:call-after-close-not-refused", fmt.Sprintf("Get after Close: returned=%v err=%v: %s", ok, err, cs), cs.String())
		}
	}
	if !within(3*time.Second, client.Close) {
		c.Violate(id, "close:second-close-blocks", cs.String(), cs.String())
	}
	// quiescence: settle, then nothing may happen any more. Everything is
	// observed on the client's side of the connections (what the client did),
	// never by when the simulated server got round to reading it: bytes written
	// before Close may be read by a starved server goroutine much later.
	time.Sleep(60 * time.Millisecond)
	tQuiet := time.Now()
	mark := cl.Log.Len()
	dl.mu.Lock()
	nd := len(dl.recs)
	dl.mu.Unlock()
	time.Sleep(150 * time.Millisecond)
	for _, e := range cl.Log.Snapshot()[mark:] {
		if e.Kind == "zk" { // logged synchronously inside the client's own call
			c.Violate(id, "close:activity-after-close:zk", fmt.Sprintf("ZooKeeper lookup (%s) after every call had returned: %s", e.Info, cs), cs.String())
		}
	}
	dl.mu.Lock()
	for _, rec := range dl.recs {
		if fc := rec.conn.Load(); fc != nil {
			if n := fc.WritesOKAfter(tQuiet); n > 0 {
				c.Violate(id, "close:activity-after-close:request-written", fmt.Sprintf("%d successful write(s) on the connection to %s more than 60ms after Close and every call had returned: %s", n, rec.addr, cs), cs.String())
			}
		}
	}
	dl.mu.Unlock()
	dl.mu.Lock()
	recs := append([]*dialRec{}, dl.recs...)
	dl.mu.Unlock()
	if len(recs) != nd {
		c.Violate(id, "close:activity-after-close:dial", fmt.Sprintf("%d new dial(s) after every call had returned: %s", len(recs)-nd, cs), cs.String())
	}
	open := 0
	for _, rec := range recs {
		c.Count("connections_opened", 1)
		if rec.ok.Load() {
			if ct, _ := rec.closedT.Load().(time.Time); ct.IsZero() {
				open++
				late := ""
				if rec.t.After(tClosed) {
					late = " (dialled after Close returned)"
				} else if rec.t.After(tClose) {
					late = " (dialled while Close was running)"
				}
				c.Violate(id, "close:connection-left-open", fmt.Sprintf("connection to %s%s is still open at quiescence: %s", rec.addr, late, cs), cs.String())
			} else {
				c.Count("connections_closed", 1)
			}
		}
	}
	var n int
	var dump string
	for i := 0; i < 60; i++ {
		if n, dump = gohbaseGoroutines(); n == 0 {
			break
		}
		time.Sleep(10 * time.Millisecond)
	}
	c.Count("goroutine_census_checks", 1)
	if n != 0 {
		f := "close:goroutines-left"
		if strings.Contains(dump, "lookupRegion") || strings.Contains(dump, "sleepAndIncreaseBackoff") {
			f = "close:goroutines-left:lookup-loop"
		}
		c.Violate(id, f, fmt.Sprintf("%d client goroutine(s) alive at quiescence after Close: %s\n%s", n, cs, firstLines(dump, 40)), cs.String())
		// give them a chance to go away so that the next case starts clean
		cl.ZKErr = nil
		cl.Close()
		for i := 0; i < 300; i++ {
			if n, _ = gohbaseGoroutines(); n == 0 {
				break
			}
			time.Sleep(10 * time.Millisecond)
		}
	}
}

func init() {
	fw.Register(&fw.Prop{
		ID:    "C19",
		Level: "exploration",
		Rule: "runs with 1..16 callers issuing gets, puts, batches and scans while Close is issued at a hook-selected point " +
			"{right before a dial (establisher held at its log statement until Close returned), during a dial, during the " +
			"region probe, during a meta lookup, during retry back-off, at the start of a 4.096 s back-off sleep (the call must be back within 2 s of Close), while an establisher sleeps between failed dials, after a connection lost its only region, with ZooKeeper failing, with ZooKeeper silent until after Close, with a scanner open, during " +
			"batches} or at a seeded instant; judged: Close returns, calls in flight and later calls return with the " +
			"client-closed error, all dialled connections closed at quiescence, no dial, no ZooKeeper lookup and no successful write on any connection " +
			"after all calls returned (observed on the client's side), no client goroutine left, second Close harmless. distinct = close point x callers x " +
			"seed; all non-trivial",
		Assumptions: []string{"quiescence = all calls returned + 60 ms settle; the observation window after it is 150 ms"},
		Plan: func(tier string) fw.Plan {
			if tier == "thorough" {
				return fw.Plan{Batches: 32, Parallel: 16, Timeout: 40 * time.Minute}
			}
			return fw.Plan{Batches: 16, Parallel: 16, Timeout: 8 * time.Minute}
		},
		Floors: func(tier string) map[string]int64 {
			return map[string]int64{"runs": 200, "close_point_before-dial": 3, "close_point_during-dial": 3, "close_point_during-probe": 3,
				"close_point_during-meta-lookup": 3, "close_point_during-backoff": 3, "close_point_zk-failing": 3, "close_point_zk-blocked": 3, "close_point_during-establish-backoff": 3, "close_point_during-long-backoff": 3, "calls_in_a_long_backoff_at_close": 3, "lonely_splits_before_close": 3, "abandoned_renewing_scanners": 5, "close_point_instant": 20,
				"calls_in_flight_at_close": 50, "post_close_calls": 60, "connections_opened": 60, "goroutine_census_checks": 50}
		},
		Run: func(c *fw.Ctx) {
			r := c.Rand("c19")
			points := []string{"before-dial", "during-dial", "during-probe", "during-meta-lookup", "during-backoff", "during-long-backoff", "during-establish-backoff", "zk-failing", "zk-blocked", "after-lonely-split", "scanner-open", "batch"}
			var cases []c19Case
			for rep := 0; rep < c.Pick(12, 80); rep++ {
				for _, p := range points {
					cases = append(cases, c19Case{Seed: r.Int63(), Point: p, Callers: []int{1, 4, 16}[r.Intn(3)], DelayUS: r.Intn(3000)})
				}
			}
			for i := 0; i < c.Pick(160, 2400); i++ {
				cases = append(cases, c19Case{Seed: r.Int63(), Point: "instant", Callers: []int{1, 4, 16}[r.Intn(3)], DelayUS: r.Intn(30000)})
			}
			for i, cs := range cases {
				if i%c.NBatches != c.Batch {
					continue
				}
				id := fmt.Sprintf("x%d", i)
				c.Begin(id, cs.String())
				c.Eval(fmt.Sprintf("%s|%d", cs, cs.Seed), true)
				c.Count("runs", 1)
				runC19Case(c, id, cs)
				if i < 2 {
					c.Sample(cs.String())
				}
			}
		},
	})
}

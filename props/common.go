// Package props holds one workload + oracle per property.
package props

import (
	"io"
	"log/slog"

	"verif/sim"

	"github.com/tsuna/gohbase"
	"github.com/tsuna/gohbase/hrpc"
	"github.com/tsuna/gohbase/pb"
	"github.com/tsuna/gohbase/region"
	"google.golang.org/protobuf/proto"
)

// testRegion is a region descriptor for calls that are serialised without
// going through the routing layer.
var testRegion = region.NewInfo(1, nil, []byte("t"), []byte("t,,1.abcdef."), nil, nil)

// quietLogger discards everything.
var quietLogger = slog.New(slog.NewTextHandler(io.Discard, &slog.HandlerOptions{Level: slog.LevelError + 100}))

// newClient creates a real gohbase client talking to the simulated cluster.
func newClient(c *sim.Cluster, opts ...gohbase.Option) gohbase.Client {
	base := []gohbase.Option{gohbase.RegionDialer(c.Dialer()), gohbase.Logger(quietLogger)}
	return gohbase.VerifNewClient(c.ZK(), append(base, opts...)...)
}

// newAdminClient creates a real gohbase admin client talking to the simulated master.
func newAdminClient(c *sim.Cluster, opts ...gohbase.Option) gohbase.AdminClient {
	base := []gohbase.Option{gohbase.RegionDialer(c.Dialer()), gohbase.Logger(quietLogger)}
	return gohbase.VerifNewAdminClient(c.ZK(), append(base, opts...)...)
}

// msgResult converts the response message of a batch call to a Result.
func msgResult(m proto.Message) *hrpc.Result {
	switch r := m.(type) {
	case *pb.GetResponse:
		return hrpc.ToLocalResult(r.Result)
	case *pb.MutateResponse:
		return hrpc.ToLocalResult(r.Result)
	}
	return nil
}

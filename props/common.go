// Package props holds one workload + oracle per property.
package props

import (
	"github.com/tsuna/gohbase/region"
)

// testRegion is a region descriptor for calls that are serialised without
// going through the routing layer.
var testRegion = region.NewInfo(1, nil, []byte("t"), []byte("t,,1.abcdef."), nil, nil)

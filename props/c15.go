package props

import (
	"bytes"
	"fmt"
	"math/rand"
	"time"

	"verif/fw"
	"verif/sim"

	gsnappy "github.com/golang/snappy"
	"github.com/tsuna/gohbase/compression"
	"github.com/tsuna/gohbase/region"
)

// C15 — cellblock compression round-trips and follows Hadoop block framing.

var c15codec = compression.New("snappy")

func c15Payload(r *rand.Rand, n int, compressible bool) []byte {
	b := make([]byte, n)
	if compressible && r.Intn(3) == 0 {
		// as compressible as it gets (snappy reaches about 21:1): one byte value,
		// or one short cell repeated
		pat := rbytes(r, []int{1, 1, 8, 68}[r.Intn(4)])
		for i := range b {
			b[i] = pat[i%len(pat)]
		}
		return b
	}
	if compressible {
		pat := rbytes(r, 1+r.Intn(40))
		for i := range b {
			b[i] = pat[i%len(pat)]
			if r.Intn(97) == 0 {
				b[i] = byte(r.Intn(256))
			}
		}
	} else {
		r.Read(b)
	}
	return b
}

func splitBuffers(r *rand.Rand, p []byte) [][]byte {
	k := 1 + r.Intn(6)
	if r.Intn(3) == 0 {
		k = 1
	}
	cuts := []int{0}
	for i := 1; i < k; i++ {
		var c int
		switch r.Intn(4) {
		case 0: // around a chunk boundary
			c = sim.SnappyChunk*(1+r.Intn(3)) + r.Intn(3) - 1
		default:
			c = r.Intn(len(p) + 1)
		}
		if c < 0 || c > len(p) {
			c = len(p)
		}
		cuts = append(cuts, c)
	}
	cuts = append(cuts, len(p))
	// sort
	for i := range cuts {
		for j := i + 1; j < len(cuts); j++ {
			if cuts[j] < cuts[i] {
				cuts[i], cuts[j] = cuts[j], cuts[i]
			}
		}
	}
	var out [][]byte
	for i := 0; i+1 < len(cuts); i++ {
		out = append(out, p[cuts[i]:cuts[i+1]]) // may be empty
	}
	return out
}

func clientDecompress(b []byte) (out []byte, err error, panicked any) {
	defer func() {
		if p := recover(); p != nil {
			panicked = p
		}
	}()
	in := make([]byte, len(b)) // cap == len
	copy(in, b)
	out, err = region.VerifDecompress(c15codec, in)
	return
}

func clientCompress(bufs [][]byte, n int) (out []byte, panicked any) {
	defer func() {
		if p := recover(); p != nil {
			panicked = p
		}
	}()
	cp := make([][]byte, len(bufs))
	copy(cp, bufs)
	return region.VerifCompress(c15codec, cp, uint32(n)), nil
}

func sizeClass(n int) string {
	ch := sim.SnappyChunk
	switch {
	case n == 0:
		return "0"
	case n == 1:
		return "1"
	case n < ch-1:
		return "<chunk"
	case n == ch-1:
		return "chunk-1"
	case n == ch:
		return "chunk"
	case n == ch+1:
		return "chunk+1"
	case n < 2*ch-1:
		return "1..2chunks"
	case n <= 2*ch+1:
		return fmt.Sprintf("2chunk%+d", n-2*ch)
	}
	return fmt.Sprintf("%dchunks+", n/ch)
}

func init() {
	fw.Register(&fw.Prop{
		ID:    "C15",
		Level: "exploration",
		Rule: "(a) payloads of boundary sizes (0,1,chunk-1,chunk,chunk+1,2chunk±1,..5 chunks; compressible and not) given " +
			"as 1..6 buffers cut at random/chunk-boundary offsets are compressed by the client and decoded by an " +
			"independent Hadoop block-stream reader and by the client; (b) conforming streams written by the independent " +
			"writer with 1..4 blocks x 1..6 chunks of arbitrary sizes are decoded by the client; (c) every truncation and " +
			"every single-byte corruption (all 255 values on framing bytes, 3 sampled values on body bytes) and structural corruptions " +
			"(stream ending in a zero chunk length, chunk missing, chunk twice, empty chunk inserted) of small " +
			"streams, sampled offsets of large ones: outcome must be error or the original bytes. distinct = distinct " +
			"(size class, buffers, chunking) for round trips and distinct (stream, offset, value) for corruptions; all non-trivial",
		Assumptions: []string{"independent codec = github.com/golang/snappy block format + framing re-implemented in /verif/sim/blockcodec.go"},
		Plan: func(tier string) fw.Plan {
			if tier == "thorough" {
				return fw.Plan{Batches: 32, Parallel: 16, Timeout: 30 * time.Minute}
			}
			return fw.Plan{Batches: 8, Parallel: 8, Timeout: 5 * time.Minute}
		},
		Floors: func(tier string) map[string]int64 {
			return map[string]int64{"roundtrips": 2000, "conforming_streams": 500, "corruptions": 100000,
				"truncations": 2000, "structural_corruptions": 100, "multi_chunk_payloads": 50, "corrupt_total-length": 1000, "corrupt_chunk-length": 1000}
		},
		Run: runC15,
	})
}

func runC15(c *fw.Ctx) {
	r := c.Rand("c15")
	ch := sim.SnappyChunk
	boundary := []int{0, 1, 2, 100, 4096, ch - 1, ch, ch + 1, 2*ch - 1, 2 * ch, 2*ch + 1, 3*ch + 7, 5 * ch}

	// (a) client compress -> independent reader, client reader
	nA := c.Pick(3200, 100000) / c.NBatches
	for i := 0; i < nA; i++ {
		var n int
		switch {
		case i < len(boundary):
			n = boundary[(i+c.Batch)%len(boundary)]
		case r.Intn(12) == 0:
			n = boundary[r.Intn(len(boundary))]
		case r.Intn(30) == 0:
			n = r.Intn(5 * ch)
		default:
			n = r.Intn(5000)
		}
		p := c15Payload(r, n, r.Intn(2) == 0)
		bufs := splitBuffers(r, p)
		id := fmt.Sprintf("rt-%d", i)
		if i%50 == 0 {
			c.Begin(id, map[string]int{"len": n, "buffers": len(bufs)})
		}
		c.Eval(fmt.Sprintf("rt|%d|%d|%x", n, len(bufs), fw.Hash64(string(p[:min(len(p), 64)]))), true)
		c.Count("roundtrips", 1)
		c.Count("size_"+sizeClass(n), 1)
		if n > ch {
			c.Count("multi_chunk_payloads", 1)
		}
		comp, pnk := clientCompress(bufs, n)
		if pnk != nil {
			c.Violate(id, "compress:panic", fmt.Sprintf("compress of %d bytes in %d buffers panicked: %v", n, len(bufs), pnk), nil)
			continue
		}
		dec, lay, err := sim.DecompressStream(comp)
		if err != nil {
			c.Violate(id, "compress:independent-reader-rejects", fmt.Sprintf("len=%d buffers=%d: %v", n, len(bufs), err), nil)
			continue
		}
		if !bytes.Equal(dec, p) {
			c.Violate(id, "compress:independent-reader-differs", fmt.Sprintf("len=%d buffers=%d: decoded %d bytes differ", n, len(bufs), len(dec)), nil)
			continue
		}
		if lay.MaxChunk > ch {
			c.Violate(id, "compress:chunk-too-large", fmt.Sprintf("chunk of %d uncompressed bytes > %d", lay.MaxChunk, ch), nil)
		}
		if n > 0 && lay.Blocks != 1 {
			c.Violate(id, "compress:block-structure", fmt.Sprintf("expected one block announcing the total length, got %d", lay.Blocks), nil)
		}
		c.Max("max_chunks_per_stream", int64(lay.Chunks))
		out, err, pnk := clientDecompress(comp)
		if pnk != nil || err != nil || !bytes.Equal(out, p) {
			c.Violate(id, "roundtrip:client-differs", fmt.Sprintf("len=%d: client decompress of its own stream: err=%v panic=%v equal=%v", n, err, pnk, bytes.Equal(out, p)), nil)
		}
		if i == 3 {
			c.Sample(map[string]any{"kind": "roundtrip", "payload_len": n, "buffers": len(bufs), "stream_len": len(comp), "chunks": lay.Chunks})
		}
	}

	// (b) conforming streams -> client
	nB := c.Pick(800, 40000) / c.NBatches
	type stream struct {
		payload, wire []byte
		lay           *sim.StreamLayout
	}
	var small []stream
	for i := 0; i < nB; i++ {
		nblocks := 1 + r.Intn(4)
		if r.Intn(2) == 0 {
			nblocks = 1
		}
		var blocks []sim.BlockSpec
		total := 0
		big := r.Intn(25) == 0
		for b := 0; b < nblocks; b++ {
			var blk sim.BlockSpec
			for k, nk := 0, 1+r.Intn(6); k < nk; k++ {
				sz := 1 + r.Intn(300)
				if big && r.Intn(2) == 0 {
					sz = []int{ch - 1, ch, ch + 1, 300000, 1 + r.Intn(ch)}[r.Intn(5)]
				}
				blk = append(blk, sz)
				total += sz
			}
			blocks = append(blocks, blk)
		}
		p := c15Payload(r, total, r.Intn(2) == 0)
		wire := sim.CompressStream(p, blocks)
		id := fmt.Sprintf("conf-%d", i)
		if i%50 == 0 {
			c.Begin(id, blocks)
		}
		c.Eval(fmt.Sprintf("conf|%v", blocks), true)
		c.Count("conforming_streams", 1)
		if nblocks > 1 {
			c.Count("conforming_multi_block", 1)
		}
		out, err, pnk := clientDecompress(wire)
		if pnk != nil || err != nil || !bytes.Equal(out, p) {
			c.Violate(id, "decompress:conforming-stream", fmt.Sprintf("blocks=%v: err=%v panic=%v equal=%v", blocks, err, pnk, bytes.Equal(out, p)), blocks)
			continue
		}
		if total < 1500 && len(small) < c.Pick(6, 40) {
			_, lay, _ := sim.DecompressStream(wire)
			small = append(small, stream{p, wire, lay})
		}
		if i == 2 {
			c.Sample(map[string]any{"kind": "conforming", "blocks": blocks, "stream_len": len(wire)})
		}
	}

	// (c) corruptions and truncations
	judge := func(id string, s stream, mut []byte, what string, off int) {
		out, err, pnk := clientDecompress(mut)
		switch {
		case pnk != nil:
			c.Violate(id, "decompress:panic:"+what, fmt.Sprintf("offset %d of %d: panic %v", off, len(s.wire), pnk), map[string]any{"stream": s.wire, "mutated": mut})
		case err != nil:
			c.Count("outcome_error", 1)
		case bytes.Equal(out, s.payload):
			c.Count("outcome_original_bytes", 1)
		default:
			finding := "corrupt:silent-wrong-data:" + what
			if what == "chunk-body" {
				// narrow class: codec itself accepts the corrupted chunk with unchanged length
				if ci := s.lay.BodyChunk(off); ci >= 0 {
					rg := s.lay.BodyRanges[ci]
					o1, e1 := gsnappy.Decode(nil, s.wire[rg[0]:rg[1]])
					o2, e2 := gsnappy.Decode(nil, mut[rg[0]:rg[1]])
					if e1 == nil && e2 == nil && len(o1) == len(o2) {
						finding = "corrupt:silent-wrong-data:chunk-body-same-length"
					}
				}
			}
			c.Count("outcome_silent_wrong_data", 1)
			c.Violate(id, finding, fmt.Sprintf("offset %d (%s) of a %d-byte stream: decoded %d bytes != original %d bytes, err=nil",
				off, what, len(s.wire), len(out), len(s.payload)), map[string]any{"stream": s.wire, "offset": off, "mutated_byte": mut[min(off, len(mut)-1)]})
		}
	}
	for si, s := range small {
		c.Begin(fmt.Sprintf("corrupt-stream-%d", si), len(s.wire))
		// truncations
		for cut := 0; cut < len(s.wire); cut++ {
			c.Count("truncations", 1)
			c.EvalH(fw.Hash64(fmt.Sprintf("tr|%d|%d|%d", c.Batch, si, cut)), true)
			out, err, pnk := clientDecompress(s.wire[:cut])
			id := fmt.Sprintf("trunc-%d-%d", si, cut)
			if pnk != nil {
				c.Violate(id, "decompress:panic:truncation", fmt.Sprintf("cut at %d of %d: %v", cut, len(s.wire), pnk), s.wire[:cut])
			} else if err == nil {
				atBoundary := false
				for _, o := range s.lay.TotalLenOffs {
					if o == cut {
						atBoundary = true
					}
				}
				if atBoundary && bytes.HasPrefix(s.payload, out) {
					c.Violate(id, "truncate:silent-prefix:block-boundary",
						fmt.Sprintf("cut at %d (a block boundary) of %d: decoded %d of %d bytes, err=nil", cut, len(s.wire), len(out), len(s.payload)), nil)
				} else {
					c.Violate(id, "truncate:silent", fmt.Sprintf("cut at %d of %d: decoded %d bytes, err=nil", cut, len(s.wire), len(out)), s.wire[:cut])
				}
			}
		}
		// structural corruptions (more than one byte): the stream ends in the
		// middle of a block with a zero chunk length, a chunk is missing, a chunk
		// occurs twice. None can decode to the original, all must be errors.
		for ci, o := range s.lay.ChunkLenOffs {
			rg := s.lay.BodyRanges[ci]
			muts := map[string][]byte{
				"ends-with-zero-chunk-length": append(append([]byte{}, s.wire[:o]...), 0, 0, 0, 0),
				"chunk-missing":               append(append([]byte{}, s.wire[:o]...), s.wire[rg[1]:]...),
				"chunk-twice":                 append(append(append([]byte{}, s.wire[:rg[1]]...), s.wire[o:rg[1]]...), s.wire[rg[1]:]...),
				"zero-chunk-length-inserted":  append(append(append([]byte{}, s.wire[:o]...), 0, 0, 0, 0), s.wire[o:]...),
			}
			for what, mut := range muts {
				c.Count("corruptions", 1)
				c.Count("structural_corruptions", 1)
				c.EvalH(fw.Hash64(fmt.Sprintf("st|%d|%d|%d|%s", c.Batch, si, ci, what)), true)
				id := fmt.Sprintf("struct-%d-%d-%s", si, ci, what)
				out, err, pnk := clientDecompress(mut)
				switch {
				case pnk != nil:
					c.Violate(id, "decompress:panic:"+what, fmt.Sprintf("chunk %d of a %d-byte stream: panic %v", ci, len(s.wire), pnk), map[string]any{"stream": s.wire, "mutated": mut})
				case err != nil:
					c.Count("outcome_error", 1)
				case what == "zero-chunk-length-inserted" && bytes.Equal(out, s.payload):
					// an empty chunk that a decoder skips is harmless
					c.Count("outcome_original_bytes", 1)
				default:
					c.Violate(id, "corrupt:silent-wrong-data:"+what, fmt.Sprintf("chunk %d (length field at %d) of a %d-byte stream: decoded %d bytes (original %d), err=nil",
						ci, o, len(s.wire), len(out), len(s.payload)), map[string]any{"stream": s.wire, "mutated": mut})
				}
			}
		}
		for off := 0; off < len(s.wire); off++ {
			what := s.lay.Region(off)
			var vals []byte
			if what == "chunk-body" {
				vals = []byte{s.wire[off] ^ 1, s.wire[off] ^ 0x80, byte(r.Intn(256))}
			} else {
				for v := 0; v < 256; v++ {
					vals = append(vals, byte(v))
				}
			}
			for _, v := range vals {
				if v == s.wire[off] {
					continue
				}
				mut := append([]byte{}, s.wire...)
				mut[off] = v
				c.Count("corruptions", 1)
				c.Count("corrupt_"+what, 1)
				c.EvalH(fw.Hash64(fmt.Sprintf("co|%d|%d|%d|%d", c.Batch, si, off, v)), true)
				judge(fmt.Sprintf("corrupt-%d-%d-%d", si, off, v), s, mut, what, off)
			}
		}
	}
	// large streams: sampled offsets
	for li := 0; li < c.Pick(2, 12); li++ {
		n := []int{ch + 100, 2*ch + 1, 3 * ch}[li%3]
		p := c15Payload(r, n, li%2 == 0)
		comp, _ := clientCompress([][]byte{p}, n)
		_, lay, err := sim.DecompressStream(comp)
		if err != nil {
			continue
		}
		s := stream{p, comp, lay}
		c.Begin(fmt.Sprintf("corrupt-large-%d", li), n)
		offs := append([]int{}, lay.TotalLenOffs...)
		for _, o := range lay.ChunkLenOffs {
			offs = append(offs, o, o+1, o+2, o+3)
		}
		offs = append(offs, 1, 2, 3)
		for k := 0; k < 150; k++ {
			offs = append(offs, r.Intn(len(comp)))
		}
		for _, off := range offs {
			what := lay.Region(off)
			for _, v := range []byte{comp[off] ^ 1, comp[off] ^ 0x40, comp[off] + 1} {
				mut := append([]byte{}, comp...)
				mut[off] = v
				c.Count("corruptions", 1)
				c.Count("corrupt_"+what, 1)
				c.Count("corruptions_large_stream", 1)
				c.EvalH(fw.Hash64(fmt.Sprintf("cl|%d|%d|%d|%d", c.Batch, li, off, v)), true)
				judge(fmt.Sprintf("corrupt-large-%d-%d-%d", li, off, v), s, mut, what, off)
			}
		}
		for _, cut := range []int{0, 1, 3, 4, 5, 8, 9, len(comp) / 2, len(comp) - 1} {
			c.Count("truncations", 1)
			out, err, pnk := clientDecompress(comp[:cut])
			if pnk != nil {
				c.Violate(fmt.Sprintf("trunc-large-%d-%d", li, cut), "decompress:panic:truncation", fmt.Sprint(pnk), nil)
			} else if err == nil && cut != 0 {
				c.Violate(fmt.Sprintf("trunc-large-%d-%d", li, cut), "truncate:silent", fmt.Sprintf("cut %d: %d bytes, nil error", cut, len(out)), nil)
			}
		}
	}
}

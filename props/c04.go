package props

import (
	"context"
	"fmt"
	"math/rand"
	"strings"
	"sync"
	"sync/atomic"
	"time"

	"verif/fw"
	"verif/sim"

	"github.com/tsuna/gohbase"
	"github.com/tsuna/gohbase/hrpc"
)

// C04 — requests survive region and server faults; only real errors surface.

type excClass struct {
	Class, Stack string
	React        string // retry | relocate | reconnect | surface
}

var c04Classes = []excClass{
	{sim.ExcCallQueue, "", "retry"},
	{sim.ExcRegionOpening, "", "retry"},
	{sim.ExcThrottling, "", "retry"},
	{sim.ExcRetryImm, "", "retry"},
	{sim.ExcTooBusy, "", "retry"},
	{sim.ExcPleaseHold, "", "retry"},
	{sim.ExcNSRE, "", "relocate"},
	{sim.ExcRegionMoved, "", "relocate"},
	{sim.ExcIO, "java.io.IOException: Cannot append; log is closed, regionName = x", "relocate"},
	{sim.ExcAborted, "", "reconnect"},
	{sim.ExcStopped, "", "reconnect"},
	{sim.ExcMasterStopped, "", "reconnect"},
	{sim.ExcNotRunningYet, "", "reconnect"},
	{sim.ExcDoNotRetry, "", "surface"},
	{sim.ExcNoSuchCF, "", "surface"},
	{sim.ExcIO, "java.io.IOException: disk full", "surface"},
	{"com.example.UnknownException", "", "surface"},
	{"org.apache.hadoop.hbase.security.AccessDeniedException", "", "surface"},
	{"org.apache.hadoop.hbase.NotServingRegionExceptionX", "", "surface"},
	{sim.ExcWrongRegion, "", "surface"},
}

func c04Client(cl *sim.Cluster, queue int) gohbase.Client {
	return newClient(cl, gohbase.RpcQueueSize(queue), gohbase.FlushInterval(time.Millisecond),
		gohbase.RegionLookupTimeout(2*time.Second), gohbase.RegionReadTimeout(time.Second))
}

// c04Classify injects one exception class at one position and checks the
// client's reaction through its observable outcome.
func c04Classify(c *fw.Ctx, id string, ec excClass, pos string, kind string, seed int64) {
	cl := sim.NewCluster(seed, 3)
	defer cl.Close()
	regs := cl.CreateTable("t", [][]byte{[]byte("m")}, nil)
	cl.EchoResults = true
	queue := 100
	if pos == "header" {
		queue = 1 // unbatched: the exception travels in the response header
	}
	client := c04Client(cl, queue)
	defer func() { within(3*time.Second, client.Close) }()
	opid := sim.OpIDPrefix + id
	row := []byte("c1")
	target := regs[0]
	var arrivals int32
	var poisoned sync.Map // conn id -> true
	stack := ec.Stack
	mkExc := func() *sim.Exc {
		st := stack
		if st == "" {
			st = ec.Class + ": injected for " + opid
		} else {
			st += " [" + opid + "]"
		}
		return &sim.Exc{Class: ec.Class, Stack: st + "\n\tat Injected.java"}
	}
	inject := func(req *sim.Request) bool {
		n := atomic.AddInt32(&arrivals, 1)
		switch ec.React {
		case "retry":
			return n <= 2
		case "relocate":
			if n == 1 {
				// the region really is elsewhere now
				to := "rs0:16020"
				if target.Server == to {
					to = "rs1:16020"
				}
				cl.MoveRegion(target.Name, to)
				return true
			}
			// the server that lost the region keeps answering with this class
			if o := cl.Owner("t", row); o != nil && o.Server != req.Server {
				return true
			}
			return false
		case "reconnect":
			if n == 1 {
				poisoned.Store(req.Conn.ID, true)
			}
			_, p := poisoned.Load(req.Conn.ID)
			return p
		default:
			return n == 1
		}
	}
	switch pos {
	case "header":
		cl.OnRequest = func(req *sim.Request) *sim.Reply {
			if req.Single != nil && req.Single.OpID == opid && inject(req) {
				return &sim.Reply{Exc: mkExc()}
			}
			if _, p := poisoned.Load(req.Conn.ID); p && req.Single != nil {
				return &sim.Reply{Exc: mkExc()}
			}
			return nil
		}
	case "action":
		cl.OnAction = func(req *sim.Request, a *sim.Action) *sim.Exc {
			if a.OpID == opid && inject(req) {
				return mkExc()
			}
			return nil
		}
		if ec.React == "reconnect" {
			cl.OnRequest = func(req *sim.Request) *sim.Reply {
				if _, p := poisoned.Load(req.Conn.ID); p {
					return &sim.Reply{Exc: mkExc()}
				}
				return nil
			}
		}
	case "region":
		cl.OnRegionAction = func(req *sim.Request, region []byte) *sim.Exc {
			for _, ra := range req.Multi {
				if string(ra.Region) != string(region) {
					continue
				}
				for _, a := range ra.Actions {
					if a.OpID == opid && inject(req) {
						return mkExc()
					}
				}
			}
			return nil
		}
		if ec.React == "reconnect" {
			cl.OnRequest = func(req *sim.Request) *sim.Reply {
				if _, p := poisoned.Load(req.Conn.ID); p {
					return &sim.Reply{Exc: mkExc()}
				}
				return nil
			}
		}
	}
	ctx, cancel := context.WithTimeout(context.Background(), 40*time.Second)
	defer cancel()
	var err error
	var res *hrpc.Result
	returned := within(45*time.Second, func() {
		switch kind {
		case "get":
			g, _ := hrpc.NewGet(ctx, []byte("t"), row, hrpc.Families(map[string][]string{"echo": {opid}}))
			res, err = client.Get(g)
		case "put":
			p, _ := hrpc.NewPut(ctx, []byte("t"), row, map[string]map[string][]byte{"f": {opid: []byte("v")}})
			res, err = client.Put(p)
		case "batch":
			p, _ := hrpc.NewPut(ctx, []byte("t"), row, map[string]map[string][]byte{"f": {opid: []byte("v")}})
			g2, _ := hrpc.NewGet(ctx, []byte("t"), []byte("x9"), hrpc.Families(map[string][]string{"echo": {opid + "-other"}}))
			rs, _ := client.SendBatch(ctx, []hrpc.Call{p, g2})
			err = rs[0].Error
			if rs[0].Msg != nil {
				res = msgResult(rs[0].Msg)
			}
			if rs[1].Error != nil && ec.React != "reconnect" {
				c.Violate(id, "faults:bystander-call-failed", fmt.Sprintf("%s at %s: the other call of the batch failed: %v", ec.Class, pos, rs[1].Error), nil)
			}
		}
	})
	c.Count("classification_cases", 1)
	c.Count("class_react_"+ec.React, 1)
	descr := fmt.Sprintf("class=%s stack=%q position=%s kind=%s expected-reaction=%s attempts=%d", ec.Class, ec.Stack, pos, kind, ec.React, atomic.LoadInt32(&arrivals))
	if !returned {
		c.Violate(id, "faults:request-stuck:"+ec.React, "request did not return within 45s: "+descr, descr)
		return
	}
	n := int(atomic.LoadInt32(&arrivals))
	switch ec.React {
	case "surface":
		if err == nil {
			c.Violate(id, "faults:real-error-swallowed", "non-retryable error was retried and hidden (request succeeded): "+descr, descr)
		} else if !strings.Contains(err.Error(), ec.Class) || !strings.Contains(err.Error(), opid) {
			c.Violate(id, "faults:real-error-altered", fmt.Sprintf("returned error %q does not carry the server's class and stack: %s", err, descr), descr)
		}
		if n != 1 {
			c.Violate(id, "faults:real-error-retried", fmt.Sprintf("non-retryable error was retried (%d attempts): %s", n, descr), descr)
		}
	default:
		if err != nil {
			c.Violate(id, "faults:retryable-error-surfaced:"+ec.React, fmt.Sprintf("request failed with %v: %s", err, descr), descr)
			return
		}
		if res == nil || !echoOK(res, row, opid, kind) {
			c.Violate(id, "faults:wrong-payload-after-retry", fmt.Sprintf("result %v: %s", res, descr), descr)
		}
		// final executor must be the current owner
		o := cl.Owner("t", row)
		okExec := false
		for _, e := range cl.Log.Snapshot() {
			if e.Kind == "exec" && e.OpID == opid && o != nil && e.Region == string(o.Name) && e.Server == o.Server {
				okExec = true
			}
			if e.Kind == "misroute" {
				c.Violate(id, "faults:misrouted", fmt.Sprintf("%s row %q region %q: %s", e.OpID, e.Row, e.Region, descr), descr)
			}
		}
		if !okExec {
			c.Violate(id, "faults:not-executed-by-owner", "no execution by the current owner: "+descr, descr)
		}
		c.Count("retries_observed_"+ec.React, int64(n-1))
	}
}

// ---- fault scripts ----

var c04FaultKinds = []string{"move", "split", "merge", "offline", "opening", "too-busy", "call-queue", "throttle", "abort-exc", "reset",
	"server-down", "meta-move", "app-exception", "unknown-table", "split-meta-lag", "meta-row-missing", "crash-reassign", "drop-table", "kill-after-probe", "offline-in-meta"}

type c04Script struct {
	Seed   int64
	Faults []string
	Queue  int
}

func (s c04Script) String() string {
	return fmt.Sprintf("queue=%d faults=%v", s.Queue, s.Faults)
}

func runC04Script(c *fw.Ctx, id string, sc c04Script) {
	r := rand.New(rand.NewSource(sc.Seed))
	cl := sim.NewCluster(sc.Seed, 3)
	defer cl.Close()
	// six regions over three servers: every connection is shared by two regions
	cl.CreateTable("t", [][]byte{[]byte("d"), []byte("g"), []byte("k"), []byte("p"), []byte("t")}, nil)
	cl.EchoResults = true
	client := c04Client(cl, sc.Queue)
	defer func() { within(3*time.Second, client.Close) }()
	var mu sync.Mutex
	transient := map[string]int{} // region name -> remaining injected exceptions
	transientClass := map[string]string{}
	appExc := map[string]bool{} // op ids that get an application exception
	cl.OnAction = func(req *sim.Request, a *sim.Action) *sim.Exc {
		mu.Lock()
		defer mu.Unlock()
		if appExc[a.OpID] {
			return &sim.Exc{Class: sim.ExcNoSuchCF, Stack: sim.ExcNoSuchCF + ": app-error-for-" + a.OpID}
		}
		if transient[string(a.Region)] > 0 && a.OpID != "" {
			transient[string(a.Region)]--
			return &sim.Exc{Class: transientClass[string(a.Region)]}
		}
		return nil
	}
	var abortConn sync.Map
	var killAfterProbe sync.Map // server address -> armed
	closedCh := make(chan struct{})
	close(closedCh)
	cl.OnRequest = func(req *sim.Request) *sim.Reply {
		if _, ok := abortConn.Load(req.Conn.ID); ok {
			return &sim.Reply{Exc: &sim.Exc{Class: sim.ExcAborted, KillConn: true}}
		}
		if req.Single != nil && req.Single.Kind() == "exists" && req.Single.OpID == "" && string(req.Single.Region) != string(sim.MetaRegionName) {
			if _, armed := killAfterProbe.LoadAndDelete(req.Server); armed {
				// the region probe is answered, then the connection dies
				return &sim.Reply{HoldDefault: closedCh, KillConn: true}
			}
		}
		return nil
	}
	opn := 0
	type outcome struct {
		opid, kind, table string
		row               []byte
		err               error
		res               *hrpc.Result
		wantApp           bool
		wantTNF           bool // the table does not exist (any more) when the request is issued
		returned          bool
	}
	var outs []*outcome
	var wg sync.WaitGroup
	keys := []string{"a1", "d", "f9", "g", "g0", "k5", "oz", "p", "p1", "t0", "zz"}
	issue := func(kind string, key string, table string, app bool) {
		opn++
		o := &outcome{opid: fmt.Sprintf("%s%s-%d", sim.OpIDPrefix, id, opn), kind: kind, table: table, row: []byte(key), wantApp: app}
		if app {
			mu.Lock()
			appExc[o.opid] = true
			mu.Unlock()
		}
		outs = append(outs, o)
		wg.Add(1)
		go func() {
			defer wg.Done()
			ctx, cancel := context.WithTimeout(context.Background(), 50*time.Second)
			defer cancel()
			o.returned = within(55*time.Second, func() {
				switch kind {
				case "get":
					g, _ := hrpc.NewGet(ctx, []byte(table), o.row, hrpc.Families(map[string][]string{"echo": {o.opid}}))
					o.res, o.err = client.Get(g)
				case "put":
					p, _ := hrpc.NewPut(ctx, []byte(table), o.row, map[string]map[string][]byte{"f": {o.opid: []byte("v")}})
					o.res, o.err = client.Put(p)
				case "append":
					p, _ := hrpc.NewApp(ctx, []byte(table), o.row, map[string]map[string][]byte{"f": {o.opid: []byte("v")}})
					o.res, o.err = client.Append(p)
				case "batch":
					p, _ := hrpc.NewPut(ctx, []byte(table), o.row, map[string]map[string][]byte{"f": {o.opid: []byte("v")}})
					rs, _ := client.SendBatch(ctx, []hrpc.Call{p})
					o.err = rs[0].Error
					if rs[0].Msg != nil {
						o.res = msgResult(rs[0].Msg)
					}
				}
			})
		}()
	}
	someRequests := func(n int) {
		for i := 0; i < n; i++ {
			issue([]string{"get", "put", "append", "batch"}[r.Intn(4)], keys[r.Intn(len(keys))], "t", false)
		}
	}
	created2, dropped2 := false, false
	downForGood := map[string]bool{}
	// rehome: whatever sits on a dead server goes to a server that is alive now
	rehome := func(pick int) {
		mu.Lock()
		var alive []string
		for _, a := range cl.ServerAddrs() {
			if !downForGood[a] {
				alive = append(alive, a)
			}
		}
		dead := map[string]bool{}
		for a, d := range downForGood {
			dead[a] = d
		}
		mu.Unlock()
		target := alive[pick%len(alive)]
		for _, rg := range cl.Regions("t") {
			if dead[rg.Server] {
				cl.MoveRegion(rg.Name, target)
			}
		}
		if dead[cl.MetaAddr()] {
			cl.SetMeta(target)
		}
	}
	someRequests(4) // warm the cache so that faults hit cached state
	wg.Wait()
	for _, f := range sc.Faults {
		regsNow := cl.Regions("t")
		reg := regsNow[r.Intn(len(regsNow))]
		addrs := cl.ServerAddrs()
		var live []string
		for _, a := range addrs {
			if !downForGood[a] {
				live = append(live, a)
			}
		}
		other := live[r.Intn(len(live))]
		c.Count("fault_"+f, 1)
		switch f {
		case "move":
			cl.MoveRegion(reg.Name, other)
		case "split":
			at := append(append([]byte{}, reg.Start...), 'm')
			if reg.Contains(at) {
				cl.SplitRegion(reg.Name, at, "", other)
			}
		case "split-meta-lag":
			// hbase:meta lists only the first daughter for a while: lookups for keys
			// of the second one are answered with a row that ends before the key
			at := append(append([]byte{}, reg.Start...), 'm')
			if reg.Contains(at) {
				if d, err := cl.SplitRegion(reg.Name, at, "", other); err == nil {
					name := d[1].Name
					cl.SetInMeta(name, false)
					time.AfterFunc(time.Duration(20+r.Intn(150))*time.Millisecond, func() { cl.SetInMeta(name, true) })
				}
			}
		case "meta-row-missing":
			// a region in transition: not served and its meta row absent for a while
			// (not the table's first region: with no preceding row the table itself would look absent)
			if name := reg.Name; len(reg.Start) > 0 {
				cl.SetOffline(name, true)
				cl.SetInMeta(name, false)
				time.AfterFunc(time.Duration(20+r.Intn(150))*time.Millisecond, func() { cl.SetInMeta(name, true); cl.SetOffline(name, false) })
			}
		case "merge":
			if len(regsNow) > 1 {
				i := r.Intn(len(regsNow) - 1)
				cl.MergeRegions(regsNow[i].Name, regsNow[i+1].Name, other)
			}
		case "offline":
			name := reg.Name
			cl.SetOffline(name, true)
			time.AfterFunc(time.Duration(20+r.Intn(150))*time.Millisecond, func() { cl.SetOffline(name, false) })
		case "offline-in-meta":
			// a region in transition: not served, and its hbase:meta row says offline
			name := reg.Name
			cl.SetOffline(name, true)
			cl.SetMetaOffline(name, true)
			time.AfterFunc(time.Duration(20+r.Intn(150))*time.Millisecond, func() { cl.SetMetaOffline(name, false); cl.SetOffline(name, false) })
		case "opening", "too-busy", "call-queue", "throttle":
			mu.Lock()
			transient[string(reg.Name)] = 1 + r.Intn(3)
			transientClass[string(reg.Name)] = map[string]string{"opening": sim.ExcRegionOpening, "too-busy": sim.ExcTooBusy,
				"call-queue": sim.ExcCallQueue, "throttle": sim.ExcThrottling}[f]
			mu.Unlock()
		case "abort-exc":
			// every connection currently open to that server answers "aborted" and closes
			srv := cl.Server(reg.Server)
			for _, e := range cl.Log.Snapshot() {
				if e.Kind == "accept" && e.Server == srv.Addr {
					abortConn.Store(e.Conn, true)
				}
			}
		case "reset":
			cl.Server(reg.Server).KillConns("reset")
		case "server-down":
			srv := cl.Server(reg.Server)
			if downForGood[srv.Addr] {
				break // (its regions are about to be reassigned)
			}
			if srv.Addr != cl.MetaAddr() || r.Intn(2) == 0 {
				srv.SetDown(true)
				srv.KillConns("crash")
				time.AfterFunc(time.Duration(50+r.Intn(200))*time.Millisecond, func() { srv.SetDown(false) })
			}
		case "crash-reassign":
			// the server dies for good (connections refused) while hbase:meta still
			// names it; a little later its regions (and meta, if it hosted it) are
			// reassigned to the servers that are left
			var up []string
			for _, a := range addrs {
				if !downForGood[a] {
					up = append(up, a)
				}
			}
			if len(up) >= 2 {
				victim := reg.Server
				if downForGood[victim] {
					victim = up[r.Intn(len(up))]
				}
				var rest []string
				for _, a := range up {
					if a != victim {
						rest = append(rest, a)
					}
				}
				mu.Lock()
				downForGood[victim] = true
				mu.Unlock()
				srv := cl.Server(victim)
				srv.SetDown(true)
				srv.KillConns("crash")
				pick := r.Intn(1 << 20)
				time.AfterFunc(time.Duration(30+r.Intn(120))*time.Millisecond, func() { rehome(pick) })
			}
		case "kill-after-probe":
			// a region is being re-established on a connection shared with other
			// regions; its probe is answered and then the connection dies while
			// requests for the sibling regions are in flight
			name, srv := reg.Name, reg.Server
			cl.SetOffline(name, true)
			issue("get", string(append(append([]byte{}, reg.Start...), '1')), "t", false)
			time.AfterFunc(time.Duration(10+r.Intn(20))*time.Millisecond, func() {
				killAfterProbe.Store(srv, true)
				cl.SetOffline(name, false)
			})
			var sib []string // keys of the other regions on that server
			for _, rg := range regsNow {
				if rg.Server == srv && string(rg.Name) != string(name) {
					sib = append(sib, string(append(append([]byte{}, rg.Start...), '2')))
				}
			}
			for i := 0; i < 16; i++ {
				if len(sib) > 0 {
					issue([]string{"get", "put"}[i%2], sib[i%len(sib)], "t", false)
				} else {
					someRequests(1)
				}
				time.Sleep(2 * time.Millisecond)
			}
		case "meta-move":
			cl.SetMeta(other)
		case "app-exception":
			issue("put", keys[r.Intn(len(keys))], "t", true)
		case "unknown-table":
			issue("get", "k", "nosuchtable", false)
			outs[len(outs)-1].wantTNF = true
		case "drop-table":
			// a second table whose region is cached is dropped: requests for it must
			// end with "table not found" instead of being retried for ever
			if !dropped2 {
				if !created2 {
					cl.CreateTable("t2", [][]byte{[]byte("m")}, func(i int) string { return live[i%len(live)] })
					created2 = true
					for _, k := range []string{"a", "x"} {
						issue("get", k, "t2", false)
					}
					wg.Wait()
				}
				cl.DropTable("t2")
				dropped2 = true
			}
			issue([]string{"get", "put", "batch"}[r.Intn(3)], []string{"a", "x"}[r.Intn(2)], "t2", false)
			outs[len(outs)-1].wantTNF = true
		}
		someRequests(1 + r.Intn(3))
		if r.Intn(2) == 0 {
			time.Sleep(time.Duration(r.Intn(30)) * time.Millisecond)
		}
	}
	if len(downForGood) > 0 {
		// a split or merge may have put a region on a dead server after the reassignment
		time.Sleep(160 * time.Millisecond)
		rehome(0)
	}
	// the cluster is stable from here on: everything issued must complete
	finished := within(60*time.Second, wg.Wait)
	// and a final round over all keys must be served by the current owners
	mark := cl.Log.Len()
	for _, k := range keys {
		issue("get", k, "t", false)
	}
	finished = within(60*time.Second, wg.Wait) && finished
	if !finished {
		n := 0
		for _, o := range outs {
			if !o.returned {
				n++
			}
		}
		c.Violate(id, "faults:request-stuck", fmt.Sprintf("%d request(s) still blocked 60s after the cluster became stable: %s", n, sc), sc)
		return
	}
	for _, o := range outs {
		c.Count("script_requests_checked", 1)
		switch {
		case o.wantTNF:
			if o.err == nil || !strings.Contains(o.err.Error(), "table not found") {
				c.Violate(id, "faults:unknown-table-not-reported", fmt.Sprintf("request for table %q, which does not exist (any more), ended with %v: %s", o.table, o.err, sc), sc)
			}
		case o.table != "t":
			if o.err != nil {
				c.Violate(id, "faults:retryable-error-surfaced", fmt.Sprintf("%s %s on table %q failed with %v: %s", o.kind, o.opid, o.table, o.err, sc), sc)
			}
		case o.wantApp:
			if o.err == nil || !strings.Contains(o.err.Error(), "app-error-for-"+o.opid) {
				c.Violate(id, "faults:real-error-altered", fmt.Sprintf("application exception for %s surfaced as %v: %s", o.opid, o.err, sc), sc)
			}
		case o.err != nil:
			c.Violate(id, "faults:retryable-error-surfaced", fmt.Sprintf("%s %s row %q failed with %v although the cluster stabilised: %s", o.kind, o.opid, o.row, o.err, sc), sc)
		default:
			if o.res == nil || !echoOK(o.res, o.row, o.opid, o.kind) {
				c.Violate(id, "faults:wrong-payload-after-retry", fmt.Sprintf("%s %s: result %v: %s", o.kind, o.opid, o.res, sc), sc)
			}
		}
	}
	evs := cl.Log.Snapshot()
	appExecs := map[string]int{}
	killed := map[int64]bool{} // connections the script killed: a response written on them may never have arrived
	for _, e := range evs {
		if e.Kind == "conn-kill" {
			killed[e.Conn] = true
		}
	}
	for i, e := range evs {
		switch e.Kind {
		case "misroute":
			c.Violate(id, "faults:misrouted", fmt.Sprintf("op %s row %q sent to region %q which does not contain it: %s", e.OpID, e.Row, e.Region, sc), sc)
		case "malformed":
			c.Violate(id, "faults:malformed", e.Info, sc)
		case "exec-fault":
			if strings.Contains(e.Info, sim.ExcNoSuchCF) && !killed[e.Conn] {
				appExecs[e.OpID]++
			}
			if i >= mark && e.OpID != "" {
				c.Count("final_round_stale_attempts", 1)
			}
		}
	}
	for op, n := range appExecs {
		if n > 1 {
			c.Violate(id, "faults:real-error-retried", fmt.Sprintf("%s: application exception was retried (%d attempts): %s", op, n, sc), sc)
		}
	}
	// final executor of the last round = current owner (the simulator only
	// executes on the hosting server; check it independently)
	for _, e := range evs[mark:] {
		if e.Kind == "exec" && e.OpID != "" {
			o := cl.Owner("t", e.Row)
			c.Count("final_executor_checked", 1)
			if o == nil || string(o.Name) != e.Region || o.Server != e.Server {
				c.Violate(id, "faults:not-executed-by-owner", fmt.Sprintf("%s row %q executed by %q@%s, owner is %v: %s", e.OpID, e.Row, e.Region, e.Server, o, sc), sc)
			}
		}
	}
}

// c04Admin: administrative calls when the master holds, restarts or moves.
func c04Admin(c *fw.Ctx, id string, fault string, seed int64) {
	cl := sim.NewCluster(seed, 1)
	defer cl.Close()
	cl.AddServer("master2:16000")
	ac := newAdminClient(cl, gohbase.RegionLookupTimeout(2*time.Second), gohbase.RegionReadTimeout(time.Second))
	var n int32
	var poisoned sync.Map
	cl.OnRequest = func(req *sim.Request) *sim.Reply {
		if req.Method != "GetClusterStatus" {
			return nil
		}
		k := atomic.AddInt32(&n, 1)
		if _, p := poisoned.Load(req.Conn.ID); p {
			return &sim.Reply{Exc: &sim.Exc{Class: sim.ExcMasterStopped}}
		}
		switch fault {
		case "please-hold":
			if k <= 2 {
				return &sim.Reply{Exc: &sim.Exc{Class: sim.ExcPleaseHold}}
			}
		case "not-running-yet":
			if k == 1 {
				poisoned.Store(req.Conn.ID, true)
				return &sim.Reply{Exc: &sim.Exc{Class: sim.ExcNotRunningYet}}
			}
		case "master-stopped-and-moved":
			if k == 1 {
				poisoned.Store(req.Conn.ID, true)
				cl.SetMaster("master2:16000")
				return &sim.Reply{Exc: &sim.Exc{Class: sim.ExcMasterStopped}}
			}
		case "reset":
			if k == 1 {
				return &sim.Reply{Drop: true, KillConn: true}
			}
		case "app-error":
			if k == 1 {
				return &sim.Reply{Exc: &sim.Exc{Class: sim.ExcDoNotRetry, Stack: sim.ExcDoNotRetry + ": admin-app-error"}}
			}
		}
		return nil
	}
	var err error
	returned := within(45*time.Second, func() { _, err = ac.ClusterStatus() })
	c.Count("admin_cases", 1)
	switch {
	case !returned:
		c.Violate(id, "faults:admin-stuck", "ClusterStatus did not return within 45s after master fault "+fault, fault)
	case fault == "app-error":
		if err == nil || !strings.Contains(err.Error(), "admin-app-error") || atomic.LoadInt32(&n) != 1 {
			c.Violate(id, "faults:admin-real-error", fmt.Sprintf("application error from the master: err=%v attempts=%d", err, n), fault)
		}
	case err != nil:
		c.Violate(id, "faults:admin-retryable-error-surfaced", fmt.Sprintf("ClusterStatus failed with %v after master fault %s", err, fault), fault)
	}
}

func init() {
	fw.Register(&fw.Prop{
		ID:    "C04",
		Level: "fault_enumeration",
		Rule: "(a) exhaustive: every exception class the client classifies plus near-misses (20 classes) x position {response " +
			"header, multi action, multi region} x request kind; the scenario makes the right reaction necessary (retry-later: " +
			"fails twice; region class: the region really moved; server class: the connection stays poisoned; other: fails once " +
			"and would succeed if retried). (b) seeded fault scripts of 1..6 events over {move, split, merge, offline for a " +
			"while, opening, too-busy, call-queue, throttle, abort exception, reset, server down for a while, meta move, " +
			"application exception, unknown table} interleaved with requests on both sides of split points; after the script " +
			"every request must have completed (success, or the real error unchanged and not retried) and a final round must " +
			"execute on the current owners. (c) admin client vs master faults. distinct = class x position x kind, script " +
			"sequence; all non-trivial",
		Assumptions: []string{"bounded progress: 45-60 s after the last fault with lookup timeout 2 s and read timeout 1 s"},
		Plan: func(tier string) fw.Plan {
			if tier == "thorough" {
				return fw.Plan{Batches: 32, Parallel: 16, Timeout: 40 * time.Minute}
			}
			return fw.Plan{Batches: 16, Parallel: 16, Timeout: 10 * time.Minute}
		},
		Floors: func(tier string) map[string]int64 {
			return map[string]int64{"classification_cases": 100, "class_react_retry": 30, "class_react_relocate": 15, "class_react_reconnect": 20,
				"class_react_surface": 30, "scripts": 250, "script_requests_checked": 4000, "final_executor_checked": 300, "admin_cases": 5,
				"fault_split": 5, "fault_merge": 5, "fault_move": 5, "fault_server-down": 5, "fault_meta-move": 5}
		},
		Run: runC04,
	})
}

func runC04(c *fw.Ctx) {
	k := 0
	for _, ec := range c04Classes {
		for _, pos := range []string{"header", "action", "region"} {
			for _, kind := range []string{"get", "put", "batch"} {
				if pos == "header" && kind == "batch" {
					continue
				}
				if pos != "header" && c.Quick() && kind == "get" && ec.React == "surface" {
					continue
				}
				k++
				if k%c.NBatches != c.Batch {
					continue
				}
				id := fmt.Sprintf("cls%d", k)
				descr := fmt.Sprintf("%s|%q|%s|%s", ec.Class, ec.Stack, pos, kind)
				c.Begin(id, descr)
				c.Eval(descr, true)
				c04Classify(c, id, ec, pos, kind, c.Seed*1000+int64(k))
			}
		}
	}
	r := c.Rand("scripts")
	// every single fault once, then random sequences
	n := c.Pick(320, 3200)
	for i := 0; i < n; i++ {
		var faults []string
		if i < len(c04FaultKinds) {
			faults = []string{c04FaultKinds[i]}
		} else {
			for j, l := 0, 1+r.Intn(6); j < l; j++ {
				faults = append(faults, c04FaultKinds[r.Intn(len(c04FaultKinds))])
			}
		}
		sc := c04Script{Seed: r.Int63(), Faults: faults, Queue: []int{1, 5, 100}[r.Intn(3)]}
		if i%c.NBatches != c.Batch {
			continue
		}
		id := fmt.Sprintf("scr%d", i)
		c.Begin(id, sc.String())
		c.Eval(sc.String(), true)
		c.Count("scripts", 1)
		runC04Script(c, id, sc)
		if i < 2 {
			c.Sample(sc.String())
		}
	}
	for i, f := range []string{"please-hold", "not-running-yet", "master-stopped-and-moved", "reset", "app-error"} {
		if i%c.NBatches != c.Batch {
			continue
		}
		id := "admin-" + f
		c.Begin(id, f)
		c.Eval("admin|"+f, true)
		c04Admin(c, id, f, c.Seed+int64(i))
	}
}

// echoOK checks that a result is the payload the simulator derives from opid
// (echo gets answer with zero cells for one op id in seven).
func echoOK(res *hrpc.Result, row []byte, opid, kind string) bool {
	if kind == "get" && sim.Hash32(opid)%7 == 0 {
		return len(res.Cells) == 0
	}
	return cellsMatchEcho(res, row, opid) == ""
}

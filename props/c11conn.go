package props

import (
	"context"
	"fmt"
	"io"
	"math/rand"
	"sync"
	"time"

	"verif/fw"
	"verif/sim"

	"github.com/tsuna/gohbase"
	"github.com/tsuna/gohbase/hrpc"
	"github.com/tsuna/gohbase/pb"
	"google.golang.org/protobuf/proto"
)

// C11, client level: the real client talks to a simulated server that answers
// user requests with well-formed frames whose *content* is hostile but
// decodable - results without cells, partial flags on empty results, short
// counter values, missing fields, inconsistent scan flags - and with hostile
// hbase:meta rows. The monitor is recover() around the API call (a panic in
// the caller's goroutine), the child-process crash monitor (a panic in a client
// goroutine) and a bounded wait (spin / hang).

// c11ConnBatches is the number of leading batches that run this workload.
var c11ConnBatches = 2

func hostileCells(r *rand.Rand, row []byte) []sim.Cell {
	n := r.Intn(4)
	var out []sim.Cell
	for i := 0; i < n; i++ {
		v := rbytes(r, []int{0, 1, 3, 7, 8, 9}[r.Intn(6)])
		out = append(out, sim.Cell{Row: row, Family: []byte("f"), Qualifier: []byte{byte('a' + i)}, TS: 1, Type: sim.TypePut, Value: v})
	}
	return out
}

func hostileResult(r *rand.Rand, row []byte) (*pb.Result, []sim.Cell) {
	switch r.Intn(6) {
	case 0:
		return nil, nil
	case 1:
		return &pb.Result{}, nil
	case 2: // cells inside the protobuf
		res := &pb.Result{}
		for _, c := range hostileCells(r, row) {
			res.Cell = append(res.Cell, &pb.Cell{Row: c.Row, Family: c.Family, Qualifier: c.Qualifier, Value: c.Value})
		}
		if r.Intn(2) == 0 {
			res.Cell = append(res.Cell, &pb.Cell{}) // a cell with nothing set
		}
		return res, nil
	case 3:
		res := &pb.Result{Partial: proto.Bool(true), Stale: proto.Bool(true), Exists: proto.Bool(true)}
		return res, nil
	default:
		cells := hostileCells(r, row)
		return &pb.Result{AssociatedCellCount: proto.Int32(int32(len(cells)))}, cells
	}
}

func hostileScanResponse(r *rand.Rand, n int) (*pb.ScanResponse, []sim.Cell) {
	resp := &pb.ScanResponse{}
	var cells []sim.Cell
	if r.Intn(5) != 0 {
		resp.ScannerId = proto.Uint64(uint64(1 + r.Intn(3)))
	}
	flag := func() *bool {
		switch r.Intn(3) {
		case 0:
			return nil
		case 1:
			return proto.Bool(true)
		}
		return proto.Bool(false)
	}
	resp.MoreResults, resp.MoreResultsInRegion = flag(), flag()
	if n > 6 { // make the scan end eventually
		resp.MoreResults = proto.Bool(false)
	}
	nres := r.Intn(4)
	if r.Intn(3) == 0 {
		// results inside the protobuf
		for i := 0; i < nres; i++ {
			res, _ := hostileResult(r, []byte{byte('a' + r.Intn(3))})
			if res == nil {
				res = &pb.Result{}
			}
			res.AssociatedCellCount = nil
			res.Partial = proto.Bool(r.Intn(2) == 0)
			resp.Results = append(resp.Results, res)
		}
		return resp, nil
	}
	for i := 0; i < nres; i++ {
		k := r.Intn(3) // zero-cell results included
		row := []byte{byte('a' + r.Intn(3))}
		for j := 0; j < k; j++ {
			cells = append(cells, sim.Cell{Row: row, Family: []byte("f"), Qualifier: []byte{byte('a' + j)}, TS: 1, Type: sim.TypePut, Value: rbytes(r, r.Intn(4))})
		}
		resp.CellsPerResult = append(resp.CellsPerResult, uint32(k))
		resp.PartialFlagPerResult = append(resp.PartialFlagPerResult, r.Intn(2) == 0)
	}
	return resp, cells
}

func runC11Conn(c *fw.Ctx) {
	r := c.Rand("conn")
	n := c.Pick(2400, 40000) / c11ConnBatches
	type job struct {
		i    int
		api  string
		seed int64
	}
	jobs := make(chan job)
	var wg sync.WaitGroup
	for w := 0; w < 8; w++ {
		wg.Add(1)
		go func() {
			defer wg.Done()
			for j := range jobs {
				runC11ClientCase(c, j.i, j.api, j.seed)
			}
		}()
	}
	for i := 0; i < n; i++ {
		api := []string{"get", "put", "increment", "checkandput", "scan", "scan-partials", "batch", "meta"}[r.Intn(8)]
		if i%100 == 0 {
			c.Begin(fmt.Sprintf("cl-%d", i), api)
		}
		jobs <- job{i, api, r.Int63()}
	}
	close(jobs)
	wg.Wait()
}

func runC11ClientCase(c *fw.Ctx, i int, api string, seed int64) {
	{
		id := fmt.Sprintf("cl-%d", i)
		cl := sim.NewCluster(seed, 1)
		cl.CreateTable("t", nil, nil)
		rr := rand.New(rand.NewSource(seed))
		scanN := 0
		descr := ""
		cl.OnRequest = func(req *sim.Request) *sim.Reply {
			isMeta := req.Scan != nil && req.Scan.Scan != nil && string(req.Scan.GetRegion().GetValue()) == string(sim.MetaRegionName)
			switch {
			case isMeta && api == "meta":
				// a hostile hbase:meta row
				reg := cl.Regions("t")[0]
				cells := cl.MetaRowFor(reg)
				switch rr.Intn(6) {
				case 0:
					cells[0].Value = cells[0].Value[:rr.Intn(len(cells[0].Value))]
					descr = "regioninfo truncated"
				case 1:
					for k := range cells {
						cells[k].Row = [][]byte{[]byte("t"), []byte("t,"), []byte(""), []byte("nocomma"), []byte("t,,"), []byte(",,")}[rr.Intn(6)]
					}
					descr = fmt.Sprintf("row name %q", cells[0].Row)
				case 2:
					cells = cells[1:]
					descr = "no regioninfo cell"
				case 3:
					cells[2].Value = nil
					descr = "empty server"
				case 4:
					cells[0].Value = append([]byte("PBUF"), rbytes(rr, rr.Intn(20))...)
					descr = "regioninfo garbage"
				default:
					cells[2].Value = []byte("no-port")
					descr = "server without port"
				}
				resp := &pb.ScanResponse{CellsPerResult: []uint32{uint32(len(cells))}, PartialFlagPerResult: []bool{false},
					ScannerId: proto.Uint64(5), MoreResults: proto.Bool(true), MoreResultsInRegion: proto.Bool(true)}
				return &sim.Reply{Msg: resp, Cells: cells}
			case isMeta:
				return nil
			case req.Scan != nil:
				if req.Scan.GetCloseScanner() && req.Scan.ScannerId != nil {
					return &sim.Reply{Msg: &pb.ScanResponse{}}
				}
				scanN++
				resp, cells := hostileScanResponse(rr, scanN)
				descr += fmt.Sprintf("scan%d{cpr=%v pf=%v res=%d mr=%v mrir=%v sid=%v} ", scanN, resp.CellsPerResult, resp.PartialFlagPerResult,
					len(resp.Results), resp.MoreResults, resp.MoreResultsInRegion, resp.ScannerId)
				return &sim.Reply{Msg: resp, Cells: cells}
			case req.Single != nil && req.Single.OpID != "":
				res, cells := hostileResult(rr, req.Single.Row)
				descr = fmt.Sprintf("result=%v cells=%d", res, len(cells))
				if req.Method == "Get" {
					return &sim.Reply{Msg: &pb.GetResponse{Result: res}, Cells: cells}
				}
				m := &pb.MutateResponse{Result: res}
				if rr.Intn(2) == 0 {
					m.Processed = proto.Bool(rr.Intn(2) == 0)
				}
				return &sim.Reply{Msg: m, Cells: cells}
			case req.Multi != nil:
				resp := &pb.MultiResponse{}
				var all []sim.Cell
				for _, ra := range req.Multi {
					rar := &pb.RegionActionResult{}
					for _, a := range ra.Actions {
						res, cells := hostileResult(rr, a.Row)
						if res == nil {
							res = &pb.Result{}
						}
						rar.ResultOrException = append(rar.ResultOrException, &pb.ResultOrException{Index: proto.Uint32(a.Index), Result: res})
						all = append(all, cells...)
					}
					resp.RegionActionResult = append(resp.RegionActionResult, rar)
				}
				descr = fmt.Sprintf("multi %v", resp)
				return &sim.Reply{Msg: resp, Cells: all}
			}
			return nil
		}
		client := newClient(cl, gohbase.RpcQueueSize([]int{1, 100}[rr.Intn(2)]), gohbase.FlushInterval(time.Millisecond),
			gohbase.RegionLookupTimeout(2*time.Second), gohbase.RegionReadTimeout(2*time.Second))
		dl := 1500 * time.Millisecond
		if api == "meta" {
			dl = 400 * time.Millisecond // a meta row that cannot be parsed is looked up again until the deadline
		}
		ctx, cancel := context.WithTimeout(context.Background(), dl)
		opid := sim.OpIDPrefix + id
		var pnk any
		returned := within(10*time.Second, func() {
			defer func() {
				if p := recover(); p != nil {
					pnk = sitedPanic{p, panicSite()}
				}
			}()
			row := []byte("r1")
			vals := map[string]map[string][]byte{"f": {opid: []byte("v")}}
			switch api {
			case "get", "meta":
				g, _ := hrpc.NewGet(ctx, []byte("t"), row, hrpc.Families(map[string][]string{"f": {opid}}))
				client.Get(g)
			case "put":
				p, _ := hrpc.NewPut(ctx, []byte("t"), row, vals)
				client.Put(p)
			case "increment":
				p, _ := hrpc.NewInc(ctx, []byte("t"), row, map[string]map[string][]byte{"f": {opid: {0, 0, 0, 0, 0, 0, 0, 1}}})
				client.Increment(p)
			case "checkandput":
				p, _ := hrpc.NewPut(ctx, []byte("t"), row, vals)
				client.CheckAndPut(p, "f", "q", nil)
			case "batch":
				p1, _ := hrpc.NewPut(ctx, []byte("t"), row, vals)
				g2, _ := hrpc.NewGet(ctx, []byte("t"), []byte("r2"), hrpc.Families(map[string][]string{"f": {opid + "b"}}))
				client.SendBatch(ctx, []hrpc.Call{p1, g2})
			case "scan", "scan-partials":
				opts := []func(hrpc.Call) error{hrpc.Attribute("opid", []byte(opid))}
				if api == "scan-partials" {
					opts = append(opts, hrpc.AllowPartialResults())
				}
				s, _ := hrpc.NewScan(ctx, []byte("t"), opts...)
				sc := client.Scan(s)
				for k := 0; k < 200; k++ {
					if _, err := sc.Next(); err != nil {
						if err != io.EOF {
							sc.Next()
						}
						break
					}
				}
				sc.Close()
			}
		})
		cancel()
		c.Eval("client|"+api+"|"+fmt.Sprint(fw.Hash64(descr)%512), true)
		c.Count("target_client-"+api, 1)
		c.Count("client_level_cases", 1)
		if pnk != nil {
			c.Violate(id, "panic:"+panicClass(pnk), fmt.Sprintf("api=%s: panic in the caller's goroutine: %v; server answered: %s", api, pnk, clip(descr)),
				map[string]string{"api": api, "responses": descr})
		} else if !returned {
			c.Violate(id, "hang:client-"+api, fmt.Sprintf("api=%s did not return within 10s (context deadline 3s); server answered: %s", api, clip(descr)),
				map[string]string{"api": api, "responses": descr})
		}
		if i == 3 {
			c.Sample(map[string]string{"target": "client-" + api, "responses": clip(descr)})
		}
		within(3*time.Second, client.Close)
		cl.Close()
	}
}

package props

import "verif/fw"

// c11ConnBatches is the number of leading batches that run the
// connection-level workload.
var c11ConnBatches = 0

func runC11Conn(c *fw.Ctx) {}

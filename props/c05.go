package props

import (
	"context"
	"encoding/binary"
	"fmt"
	"io"
	"math"
	"math/rand"
	"net"
	"regexp"
	"runtime"
	"sort"
	"strings"
	"sync"
	"time"

	"verif/fw"
	"verif/sim"

	"github.com/tsuna/gohbase"
	"github.com/tsuna/gohbase/filter"
	"github.com/tsuna/gohbase/hrpc"
	"github.com/tsuna/gohbase/pb"
	"google.golang.org/protobuf/proto"
)

// C05 — bytes written to the server encode exactly the requested operation.
//
// The workload keeps the specification of every call it builds (computed from
// the inputs, never from gohbase); the simulated server decodes every frame
// with the independent codec (framing, KeyValue, block compression) and the
// two are compared field by field. Malformed streams are reported by the
// server-side decoder.

// plainConn hides the concrete type of a connection, like a proxy dialer's
// connection does; writes take a moment, as through a proxy.
type plainConn struct {
	net.Conn
	yield bool
}

func (p *plainConn) Write(b []byte) (int, error) {
	if p.yield {
		runtime.Gosched()
	}
	n, err := p.Conn.Write(b)
	if p.yield {
		runtime.Gosched()
	}
	return n, err
}

type c05Spec struct {
	OpID  string
	Canon string
	Kind  string
	// for scans: what every later request of the scan must still carry
	Prio, NRows uint32
}

func canonCells(cells []sim.Cell) string {
	keys := make([]string, len(cells))
	for i, c := range cells {
		keys[i] = fmt.Sprintf("%q:%q=%q@%d/%d", c.Family, c.Qualifier, c.Value, c.TS, c.Type)
	}
	sort.Strings(keys)
	return strings.Join(keys, ",")
}

func canonFamilies(f map[string][]string) string {
	var fs []string
	for fam, qs := range f {
		q := append([]string{}, qs...)
		sort.Strings(q)
		fs = append(fs, fmt.Sprintf("%q:%q", fam, q))
	}
	sort.Strings(fs)
	return strings.Join(fs, ";")
}

func canonColumns(cols []*pb.Column) string {
	var fs []string
	for _, c := range cols {
		var q []string
		for _, x := range c.Qualifier {
			q = append(q, string(x))
		}
		sort.Strings(q)
		fs = append(fs, fmt.Sprintf("%q:%q", c.Family, q))
	}
	sort.Strings(fs)
	return strings.Join(fs, ";")
}

type c05Gen struct {
	r     *rand.Rand
	n     int
	pref  string
	table string
	big   bool
}

// wide32 / wide64 / wideRange replace a small value by a boundary value now and
// then (fields wider than what small test values exercise).
func wide32(r *rand.Rand, small uint32) uint32 {
	switch r.Intn(6) {
	case 0:
		return math.MaxInt32
	case 1:
		return 1<<16 + small
	}
	return small
}

func wide64(r *rand.Rand, small uint64) uint64 {
	switch r.Intn(6) {
	case 0:
		return 1<<32 + small
	case 1:
		return 1<<62 + small
	}
	return small
}

func wideRange(r *rand.Rand, from, to uint64) (uint64, uint64) {
	switch r.Intn(8) {
	case 0:
		return 0, to
	case 1:
		return from, 1<<32 + to
	case 2:
		return 1<<32 + from, 1<<40 + to
	case 3:
		return from, math.MaxUint64 - 1
	case 4:
		return 1 << 62, 1<<63 + to
	}
	return from, to
}

func (g *c05Gen) opid() string {
	g.n++
	return fmt.Sprintf("%s%s-%d", sim.OpIDPrefix, g.pref, g.n)
}

func (g *c05Gen) row() []byte {
	return append([]byte{byte('a' + g.r.Intn(26))}, rbytes(g.r, g.r.Intn(5))...)
}

// genGet builds a Get and its specification.
func (g *c05Gen) genGet(ctx context.Context, skipBatch bool) (hrpc.Call, c05Spec) {
	r := g.r
	opid := g.opid()
	row := g.row()
	fams := map[string][]string{"i": {opid}}
	if r.Intn(2) == 0 {
		fams["f"] = nil
	}
	if r.Intn(3) == 0 {
		fams["g"] = []string{"b", "a", ""}
	}
	opts := []func(hrpc.Call) error{hrpc.Families(fams)}
	from, to := uint64(0), uint64(math.MaxUint64)
	if r.Intn(3) == 0 {
		from, to = wideRange(r, uint64(r.Intn(100)), uint64(200+r.Intn(1000)))
		if to < 1<<40 && r.Intn(2) == 0 { // the time.Time flavour of the same option
			opts = append(opts, hrpc.TimeRange(time.UnixMilli(int64(from)), time.UnixMilli(int64(to))))
		} else {
			opts = append(opts, hrpc.TimeRangeUint64(from, to))
		}
	}
	maxv := uint32(1)
	if r.Intn(3) == 0 {
		maxv = wide32(r, uint32(2+r.Intn(5)))
		if r.Intn(6) == 0 {
			maxv = 0 // below the default of 1: must still be sent
		}
		opts = append(opts, hrpc.MaxVersions(maxv))
	}
	limit, offset := uint32(math.MaxInt32), uint32(0)
	if r.Intn(4) == 0 {
		limit = wide32(r, uint32(1+r.Intn(9)))
		opts = append(opts, hrpc.MaxResultsPerColumnFamily(limit))
	}
	if r.Intn(4) == 0 {
		offset = wide32(r, uint32(1+r.Intn(9)))
		opts = append(opts, hrpc.ResultOffset(offset))
	}
	cache := true
	if r.Intn(4) == 0 {
		cache = false
		opts = append(opts, hrpc.CacheBlocks(false))
	}
	flt := "-"
	if r.Intn(4) == 0 {
		var f filter.Filter
		f, flt = genFilter(r, 2)
		opts = append(opts, hrpc.Filters(f))
	}
	prio := uint32(0)
	if r.Intn(4) == 0 {
		prio = wide32(r, uint32(1+r.Intn(200)))
		opts = append(opts, hrpc.Priority(prio))
	}
	cons := "default"
	if r.Intn(5) == 0 {
		if r.Intn(2) == 0 {
			opts = append(opts, hrpc.Consistency(hrpc.TimelineConsistency))
			cons = "TIMELINE"
		} else {
			opts = append(opts, hrpc.Consistency(hrpc.StrongConsistency))
			cons = "STRONG"
		}
	}
	if skipBatch {
		opts = append(opts, hrpc.SkipBatch())
	}
	call, err := hrpc.NewGet(ctx, []byte(g.table), row, opts...)
	if err != nil {
		panic(err)
	}
	canon := fmt.Sprintf("get row=%q cols=%s tr=[%d,%d) maxv=%d limit=%d offset=%d cache=%v filter=%s prio=%d cons=%s exists=false",
		row, canonFamilies(fams), from, to, maxv, limit, offset, cache, flt, prio, cons)
	return call, c05Spec{OpID: opid, Canon: canon, Kind: "get"}
}

func wireGet(g *pb.Get, prio uint32) string {
	from, to := uint64(0), uint64(math.MaxUint64)
	if g.TimeRange != nil {
		if g.TimeRange.From != nil {
			from = *g.TimeRange.From
		}
		if g.TimeRange.To != nil {
			to = *g.TimeRange.To
		}
	}
	maxv := uint32(1)
	if g.MaxVersions != nil {
		maxv = *g.MaxVersions
	}
	limit := uint32(math.MaxInt32)
	if g.StoreLimit != nil {
		limit = *g.StoreLimit
	}
	cache := true
	if g.CacheBlocks != nil {
		cache = *g.CacheBlocks
	}
	cons := "default"
	if g.Consistency != nil {
		cons = g.Consistency.String()
	}
	return fmt.Sprintf("get row=%q cols=%s tr=[%d,%d) maxv=%d limit=%d offset=%d cache=%v filter=%s prio=%d cons=%s exists=%v",
		g.Row, canonColumns(g.Column), from, to, maxv, limit, g.GetStoreOffset(), cache, canonFilter(g.Filter), prio, cons, g.GetExistenceOnly())
}

// genMutate builds a mutation and its specification.
func (g *c05Gen) genMutate(ctx context.Context, skipBatch bool) (hrpc.Call, c05Spec) {
	r := g.r
	opid := g.opid()
	row := g.row()
	kind := []string{"put", "put", "delete", "delete1", "append", "increment"}[r.Intn(6)]
	isDel := strings.HasPrefix(kind, "delete")
	vals := map[string]map[string][]byte{}
	var cells []sim.Cell
	hasTS := r.Intn(3) == 0
	ts := sim.LatestTimestamp
	var tsv uint64
	if hasTS {
		tsv = []uint64{0, 1, 1500000000000, 1 << 63, math.MaxUint64 - 1}[r.Intn(5)]
		ts = tsv
	}
	addCell := func(f, q string, v []byte, typ byte) {
		cells = append(cells, sim.Cell{Family: []byte(f), Qualifier: []byte(q), Value: v, TS: ts, Type: typ})
	}
	valType := byte(sim.TypePut)
	if kind == "delete" {
		valType = sim.TypeDeleteColumn
	} else if kind == "delete1" {
		valType = sim.TypeDelete
	}
	// the op id travels in a qualifier of family "f"
	v0 := []byte("v")
	if kind == "increment" {
		v0 = []byte{0, 0, 0, 0, 0, 0, 0, 3}
	}
	if isDel {
		v0 = nil
	}
	vals["f"] = map[string][]byte{opid: v0}
	addCell("f", opid, v0, valType)
	for i, n := 0, r.Intn(4); i < n; i++ {
		q := string(rbytes(r, r.Intn(4)))
		var v []byte
		if !isDel {
			v = rbytes(r, r.Intn(20))
			if g.big && r.Intn(3) == 0 {
				v = rbytes(r, 150000+r.Intn(200000))
			}
			if kind == "increment" {
				v = []byte{0, 0, 0, 0, 0, 0, 0, byte(r.Intn(9))}
			}
		}
		if _, dup := vals["f"][q]; dup {
			continue
		}
		vals["f"][q] = v
		addCell("f", q, v, valType)
	}
	if r.Intn(3) == 0 {
		if isDel {
			vals["g"] = nil // delete the whole family
			t := byte(sim.TypeDeleteFamily)
			if kind == "delete1" {
				t = sim.TypeDeleteFamilyVersion
			}
			addCell("g", "", nil, t)
		} else {
			vals["g"] = map[string][]byte{"": []byte("empty-qualifier")}
			addCell("g", "", []byte("empty-qualifier"), valType)
		}
	}
	var opts []func(hrpc.Call) error
	if hasTS {
		if tsv > 0 && tsv < 1<<40 && r.Intn(2) == 0 { // the time.Time flavour of the same option
			opts = append(opts, hrpc.Timestamp(time.UnixMilli(int64(tsv))))
		} else {
			opts = append(opts, hrpc.TimestampUint64(tsv))
		}
	}
	dur := 0
	if r.Intn(3) == 0 {
		dur = r.Intn(5)
		opts = append(opts, hrpc.Durability(hrpc.DurabilityType(dur)))
	}
	ttl := int64(-1)
	if r.Intn(4) == 0 {
		ttl = int64(1 + r.Intn(100000))
		switch r.Intn(4) {
		case 0: // beyond 32 bits of milliseconds (49.7 days)
			ttl = int64(1)<<32 + int64(r.Intn(1000))
		case 1:
			ttl = int64(365*24*3600*1000) * int64(1+r.Intn(20)) // years
		}
		opts = append(opts, hrpc.TTL(time.Duration(ttl)*time.Millisecond))
	}
	if skipBatch {
		opts = append(opts, hrpc.SkipBatch())
	}
	var call hrpc.Call
	var err error
	tbl := []byte(g.table)
	switch kind {
	case "put":
		call, err = hrpc.NewPut(ctx, tbl, row, vals, opts...)
	case "append":
		call, err = hrpc.NewApp(ctx, tbl, row, vals, opts...)
	case "increment":
		call, err = hrpc.NewInc(ctx, tbl, row, vals, opts...)
	case "delete":
		call, err = hrpc.NewDel(ctx, tbl, row, vals, opts...)
	case "delete1":
		call, err = hrpc.NewDel(ctx, tbl, row, vals, append(opts, hrpc.DeleteOneVersion())...)
	}
	if err != nil {
		panic(err)
	}
	mtype := map[string]string{"put": "PUT", "append": "APPEND", "increment": "INCREMENT", "delete": "DELETE", "delete1": "DELETE"}[kind]
	mts := "absent"
	if hasTS && tsv != math.MaxUint64 {
		mts = fmt.Sprint(tsv)
	}
	canon := fmt.Sprintf("mutate type=%s row=%q dur=%d ttl=%d ts=%s cells=%s", mtype, row, dur, ttl, mts, canonCells(cells))
	return call, c05Spec{OpID: opid, Canon: canon, Kind: kind}
}

func wireMutate(a *sim.Action) string {
	mp := a.Mutation
	ttl := int64(-1)
	for _, at := range mp.Attribute {
		if at.GetName() == "_ttl" && len(at.Value) == 8 {
			ttl = int64(binary.BigEndian.Uint64(at.Value))
		}
	}
	mts := "absent"
	if mp.Timestamp != nil {
		mts = fmt.Sprint(*mp.Timestamp)
	}
	cells := make([]sim.Cell, len(a.Cells))
	for i, c := range a.Cells {
		cells[i] = c
		if !bytesEq(c.Row, mp.Row) {
			cells[i].Family = append([]byte("ROW-MISMATCH:"), c.Family...)
		}
	}
	return fmt.Sprintf("mutate type=%s row=%q dur=%d ttl=%d ts=%s cells=%s", mp.GetMutateType(), mp.Row, int(mp.GetDurability()), ttl, mts, canonCells(cells))
}

func bytesEq(a, b []byte) bool { return string(a) == string(b) }

// genScan builds a scan and its specification (only the opening request is judged).
func (g *c05Gen) genScan(ctx context.Context) (*hrpc.Scan, c05Spec) {
	r := g.r
	opid := g.opid()
	start, stop := g.row(), g.row()
	rev := r.Intn(3) == 0
	opts := []func(hrpc.Call) error{hrpc.Attribute("opid", []byte(opid))}
	attrs := "opid"
	if r.Intn(3) == 0 {
		opts = append(opts, hrpc.Attribute("x", []byte("y")))
		attrs += ",x=y"
	}
	if rev {
		opts = append(opts, hrpc.Reversed())
	}
	nrows := uint32(math.MaxInt32)
	if r.Intn(2) == 0 {
		nrows = wide32(r, uint32(1+r.Intn(50)))
		opts = append(opts, hrpc.NumberOfRows(nrows))
	}
	maxSize := uint64(2097152)
	if r.Intn(3) == 0 {
		maxSize = wide64(r, uint64(1+r.Intn(1<<20)))
		opts = append(opts, hrpc.MaxResultSize(maxSize))
	}
	fams := map[string][]string{}
	if r.Intn(2) == 0 {
		fams["f"] = []string{"q2", "q1"}
		opts = append(opts, hrpc.Families(fams))
	}
	from, to := uint64(0), uint64(math.MaxUint64)
	if r.Intn(3) == 0 {
		from, to = wideRange(r, uint64(r.Intn(50)), uint64(100+r.Intn(50)))
		if to < 1<<40 && r.Intn(2) == 0 { // the time.Time flavour of the same option
			opts = append(opts, hrpc.TimeRange(time.UnixMilli(int64(from)), time.UnixMilli(int64(to))))
		} else {
			opts = append(opts, hrpc.TimeRangeUint64(from, to))
		}
	}
	maxv := uint32(1)
	if r.Intn(3) == 0 {
		maxv = wide32(r, uint32(2+r.Intn(3)))
		if r.Intn(6) == 0 {
			maxv = 0
		}
		opts = append(opts, hrpc.MaxVersions(maxv))
	}
	flt := "-"
	if r.Intn(3) == 0 {
		var f filter.Filter
		f, flt = genFilter(r, 2)
		opts = append(opts, hrpc.Filters(f))
	}
	cache := true
	if r.Intn(4) == 0 {
		cache = false
		opts = append(opts, hrpc.CacheBlocks(false))
	}
	prio := uint32(0)
	if r.Intn(4) == 0 {
		prio = wide32(r, uint32(1+r.Intn(100)))
		opts = append(opts, hrpc.Priority(prio))
	}
	sc, err := hrpc.NewScanRange(ctx, []byte(g.table), start, stop, opts...)
	if err != nil {
		panic(err)
	}
	canon := fmt.Sprintf("scan start=%q stop=%q rev=%v nrows=%d maxsize=%d cols=%s tr=[%d,%d) maxv=%d filter=%s cache=%v attrs=%s prio=%d close=false renew=false partials=true heartbeats=true",
		start, stop, rev, nrows, maxSize, canonFamilies(fams), from, to, maxv, flt, cache, attrs, prio)
	return sc, c05Spec{OpID: opid, Canon: canon, Kind: "scan", Prio: prio, NRows: nrows}
}

func wireScan(sr *pb.ScanRequest, prio uint32) string {
	s := sr.Scan
	from, to := uint64(0), uint64(math.MaxUint64)
	if s.TimeRange != nil {
		if s.TimeRange.From != nil {
			from = *s.TimeRange.From
		}
		if s.TimeRange.To != nil {
			to = *s.TimeRange.To
		}
	}
	maxv := uint32(1)
	if s.MaxVersions != nil {
		maxv = *s.MaxVersions
	}
	cache := true
	if s.CacheBlocks != nil {
		cache = *s.CacheBlocks
	}
	var attrs []string
	for _, a := range s.Attribute {
		if a.GetName() == "opid" {
			attrs = append(attrs, "opid")
		} else {
			attrs = append(attrs, fmt.Sprintf("%s=%s", a.GetName(), a.Value))
		}
	}
	return fmt.Sprintf("scan start=%q stop=%q rev=%v nrows=%d maxsize=%d cols=%s tr=[%d,%d) maxv=%d filter=%s cache=%v attrs=%s prio=%d close=%v renew=%v partials=%v heartbeats=%v",
		s.StartRow, s.StopRow, s.GetReversed(), sr.GetNumberOfRows(), s.GetMaxResultSize(), canonColumns(s.Column), from, to, maxv,
		canonFilter(s.Filter), cache, strings.Join(attrs, ","), prio, sr.GetCloseScanner(), sr.GetRenew(), sr.GetClientHandlesPartials(), sr.GetClientHandlesHeartbeats())
}

// c05Collector gathers what the servers decoded, keyed by op id.
type c05Collector struct {
	mu      sync.Mutex
	cont    map[string][]string // scan op id -> continuation requests "prio=.. nrows=.."
	wire    map[string][]string
	inMulti map[string]bool
	multi   map[int]int64
	tiny    []string // mutations without an op id (the tiny-cellblock phase), in arrival order
}

var rePrio = regexp.MustCompile(` prio=\d+`)

func (col *c05Collector) tap(cl *sim.Cluster) func(*sim.Request) {
	return func(req *sim.Request) {
		col.mu.Lock()
		defer col.mu.Unlock()
		add := func(opid, canon string, region []byte, row []byte) {
			if opid == "" {
				return
			}
			if o := cl.Owner("t", row); o == nil || string(o.Name) != string(region) || o.Server != req.Server {
				canon += fmt.Sprintf(" WRONG-REGION(%q@%s)", region, req.Server)
			}
			col.wire[opid] = append(col.wire[opid], canon)
		}
		one := func(a *sim.Action) {
			switch {
			case a.Get != nil:
				add(a.OpID, wireGet(a.Get, req.Priority), a.Region, a.Row)
			case a.Mutation != nil:
				c := wireMutate(a)
				if a.OpID == "" && a.Cond == nil {
					col.tiny = append(col.tiny, c)
				}
				if a.Cond != nil {
					cmp := &pb.BinaryComparator{}
					_ = proto.Unmarshal(a.Cond.Comparator.GetSerializedComparator(), cmp)
					c += fmt.Sprintf(" cond=%q/%q:%q %s %s(%q)", a.Cond.Row, a.Cond.Family, a.Cond.Qualifier, a.Cond.GetCompareType(),
						a.Cond.Comparator.GetName(), cmp.GetComparable().GetValue())
				}
				add(a.OpID, c, a.Region, a.Row)
			}
		}
		switch {
		case req.Single != nil:
			one(req.Single)
		case req.Multi != nil:
			n := 0
			for _, ra := range req.Multi {
				for _, a := range ra.Actions {
					one(a)
					// a multi-request has one header: per-call priority does not apply
					col.inMulti[a.OpID] = true
					n++
				}
			}
			col.multi[len(req.Multi)]++
			_ = n
		case req.Scan != nil && req.Scan.Scan == nil && req.Scan.ScannerId != nil && !req.Scan.GetCloseScanner() && !req.Scan.GetRenew():
			// a request that continues an open region scanner
			if id := cl.ScanOpID(req); id != "" {
				col.cont[id] = append(col.cont[id], fmt.Sprintf("prio=%d nrows=%d", req.Priority, req.Scan.GetNumberOfRows()))
			}
		case req.Scan != nil && req.Scan.Scan != nil:
			if id := cl.ScanOpID(req); id != "" {
				canon := wireScan(req.Scan, req.Priority)
				if o := cl.Owner("t", req.Scan.Scan.StartRow); o != nil && string(o.Name) != string(req.Scan.GetRegion().GetValue()) {
					// only the first region request of a scan is keyed by the user's start row
				}
				col.wire[id] = append(col.wire[id], canon)
			}
		}
	}
}

type c05Config struct {
	Codec   string
	Wrapped bool
	Big     bool
	Senders int
	Queue   int
	Flush   time.Duration
}

func (c c05Config) String() string {
	return fmt.Sprintf("codec=%s wrapped-conn=%v big=%v senders=%d queue=%d flush=%v", c.Codec, c.Wrapped, c.Big, c.Senders, c.Queue, c.Flush)
}

func runC05Case(c *fw.Ctx, id string, cfg c05Config, seed int64, opsPer int) {
	cl := sim.NewCluster(seed, 2)
	defer cl.Close()
	cl.CreateTable("t", [][]byte{[]byte("h"), []byte("p")}, func(i int) string { return []string{"rs0:16020", "rs1:16020", "rs0:16020"}[i] })
	col := &c05Collector{wire: map[string][]string{}, cont: map[string][]string{}, multi: map[int]int64{}, inMulti: map[string]bool{}}
	// some rows, so that scans need more than one request per region
	for _, row := range []string{"a1", "a2", "a3", "b1", "i1", "i2", "i3", "q1", "q2", "q3", "z1"} {
		cl.Load("t", cellsFor(row, 2))
	}
	cl.Tap = col.tap(cl)
	if cfg.Wrapped {
		cl.WrapConn = func(addr string, conn net.Conn) net.Conn { return &plainConn{Conn: conn, yield: cfg.Senders > 1} }
	}
	opts := []gohbase.Option{gohbase.RpcQueueSize(cfg.Queue), gohbase.FlushInterval(cfg.Flush),
		gohbase.RegionLookupTimeout(10 * time.Second), gohbase.RegionReadTimeout(20 * time.Second)}
	if cfg.Codec == "snappy" {
		opts = append(opts, gohbase.CompressionCodec("snappy"))
	}
	client := newClient(cl, opts...)
	defer func() { within(5*time.Second, client.Close) }()
	ctx, cancel := context.WithTimeout(context.Background(), 90*time.Second)
	defer cancel()
	var mu sync.Mutex
	specs := map[string]c05Spec{}
	errsByOp := map[string]error{}
	cancelledInBatch := 0
	var wg sync.WaitGroup
	for sdr := 0; sdr < cfg.Senders; sdr++ {
		wg.Add(1)
		go func(sdr int) {
			defer wg.Done()
			g := &c05Gen{r: rand.New(rand.NewSource(seed*97 + int64(sdr))), pref: fmt.Sprintf("%s-s%d", id, sdr), table: "t", big: cfg.Big}
			for k := 0; k < opsPer; k++ {
				var err error
				var sp []c05Spec
				switch x := g.r.Intn(12); {
				case x < 3:
					call, s := g.genGet(ctx, g.r.Intn(3) == 0)
					sp = append(sp, s)
					_, err = client.Get(call.(*hrpc.Get))
				case x < 7:
					call, s := g.genMutate(ctx, g.r.Intn(3) == 0)
					sp = append(sp, s)
					m := call.(*hrpc.Mutate)
					switch s.Kind {
					case "put":
						_, err = client.Put(m)
					case "append":
						_, err = client.Append(m)
					case "increment":
						_, err = client.Increment(m)
						if err != nil && strings.Contains(err.Error(), "increment returned") {
							err = nil // several columns incremented: the helper's own restriction
						}
					default:
						_, err = client.Delete(m)
					}
				case x < 8:
					// check-and-put (never batched, protobuf encoded)
					call, s := g.genMutate(ctx, false)
					for s.Kind != "put" {
						call, s = g.genMutate(ctx, false)
					}
					exp := rbytes(g.r, g.r.Intn(4))
					s.Canon += fmt.Sprintf(" cond=%q/%q:%q EQUAL org.apache.hadoop.hbase.filter.BinaryComparator(%q)", call.Key(), "cf", "cq", exp)
					sp = append(sp, s)
					_, err = client.CheckAndPut(call.(*hrpc.Mutate), "cf", "cq", exp)
				case x < 9:
					scn, s := g.genScan(ctx)
					sp = append(sp, s)
					scanner := client.Scan(scn)
					for {
						_, e := scanner.Next()
						if e != nil {
							if e != io.EOF {
								err = e
							}
							break
						}
					}
				default:
					var calls []hrpc.Call
					// sometimes one mutation of the batch has its own context, which ends
					// while the batch waits for the flush interval: it may be dropped
					// from the multi-request, everything else must still be exact
					cancelAt := -1
					nb := 1 + g.r.Intn(10)
					if cfg.Flush >= 5*time.Millisecond && cfg.Queue > nb && g.r.Intn(2) == 0 {
						cancelAt = g.r.Intn(nb)
					}
					var cancelOne context.CancelFunc
					for n := 0; n < nb; n++ {
						var call hrpc.Call
						var s c05Spec
						if n == cancelAt {
							var cctx context.Context
							cctx, cancelOne = context.WithCancel(ctx)
							call, _ = g.genMutate(cctx, false)
							calls = append(calls, call)
							continue // no specification kept: it may or may not be sent
						}
						if g.r.Intn(3) == 0 {
							call, s = g.genGet(ctx, false)
						} else {
							call, s = g.genMutate(ctx, false)
						}
						calls = append(calls, call)
						sp = append(sp, s)
					}
					if cancelOne != nil {
						time.AfterFunc(time.Duration(200+g.r.Intn(2000))*time.Microsecond, cancelOne)
						mu.Lock()
						cancelledInBatch++
						mu.Unlock()
					}
					res, ok := client.SendBatch(ctx, calls)
					if !ok {
						notSent := false
						for n, x := range res {
							if x.Error != nil && n != cancelAt {
								err = x.Error
							}
							if x.Error == gohbase.NotExecutedError {
								notSent = true
							}
						}
						if cancelAt >= 0 && notSent {
							// the context ended before the batch was even located: SendBatch
							// refuses the whole batch (documented), nothing to compare
							sp, err = nil, nil
						}
					}
					if cancelOne != nil {
						cancelOne()
					}
				}
				mu.Lock()
				for _, s := range sp {
					specs[s.OpID] = s
					if err != nil {
						errsByOp[s.OpID] = err
					}
				}
				mu.Unlock()
			}
		}(sdr)
	}
	stuck := !within(120*time.Second, wg.Wait)
	c.Count("batches_with_a_call_cancelled_before_flush", int64(cancelledInBatch))
	// Tiny cellblocks: one cell of a few bytes (24..40 bytes of cellblock), sent one at a time
	// without an op id, so that the smallest payloads also pass through the announced codec.
	var tinyWant []string
	var tinyErr error
	if !stuck {
		tr := rand.New(rand.NewSource(seed*131 + 7))
		for k := 0; k < 12 && tinyErr == nil; k++ {
			row := []byte{byte('a' + tr.Intn(26))}
			q := string(rbytes(tr, tr.Intn(3)))
			var call *hrpc.Mutate
			var cell sim.Cell
			var mtype string
			opts := []func(hrpc.Call) error{}
			if tr.Intn(2) == 0 {
				opts = append(opts, hrpc.SkipBatch())
			}
			switch tr.Intn(3) {
			case 0:
				v := rbytes(tr, tr.Intn(4))
				call, tinyErr = hrpc.NewPut(ctx, []byte("t"), row, map[string]map[string][]byte{"f": {q: v}}, opts...)
				cell, mtype = sim.Cell{Family: []byte("f"), Qualifier: []byte(q), Value: v, TS: sim.LatestTimestamp, Type: sim.TypePut}, "PUT"
			case 1:
				call, tinyErr = hrpc.NewDel(ctx, []byte("t"), row, map[string]map[string][]byte{"f": {q: nil}}, opts...)
				cell, mtype = sim.Cell{Family: []byte("f"), Qualifier: []byte(q), TS: sim.LatestTimestamp, Type: sim.TypeDeleteColumn}, "DELETE"
			default:
				call, tinyErr = hrpc.NewDel(ctx, []byte("t"), row, map[string]map[string][]byte{"g": nil}, opts...)
				cell, mtype = sim.Cell{Family: []byte("g"), Qualifier: []byte{}, TS: sim.LatestTimestamp, Type: sim.TypeDeleteFamily}, "DELETE"
			}
			if tinyErr != nil {
				panic(tinyErr)
			}
			tinyWant = append(tinyWant, fmt.Sprintf("mutate type=%s row=%q dur=%d ttl=%d ts=%s cells=%s", mtype, row, 0, int64(-1), "absent", canonCells([]sim.Cell{cell})))
			if mtype == "PUT" {
				_, tinyErr = client.Put(call)
			} else {
				_, tinyErr = client.Delete(call)
			}
			c.Count("tiny_cellblock_mutations_sent", 1)
		}
	}
	malformed := 0
	for _, e := range cl.Log.Snapshot() {
		if e.Kind == "malformed" {
			malformed++
			f := "wire:malformed-stream"
			if cfg.Wrapped && cfg.Senders > 1 {
				f = "wire:malformed-stream:concurrent-senders-on-non-tcp-conn"
			}
			c.Violate(id, f, fmt.Sprintf("server %s conn %d could not decode what the client wrote: %s [%s]", e.Server, e.Conn, e.Info, cfg), cfg)
		}
	}
	// the connection header of every connection the client opened
	for _, e := range cl.Log.Snapshot() {
		if e.Kind != "hello" {
			continue
		}
		c.Count("connection_headers_checked", 1)
		wantComp := "compressor="
		if cfg.Codec == "snappy" {
			wantComp = "compressor=org.apache.hadoop.io.compress.SnappyCodec"
		}
		if !strings.Contains(e.Info, "service=ClientService ") || !strings.Contains(e.Info, "user=root ") ||
			!strings.Contains(e.Info, "codec=org.apache.hadoop.hbase.codec.KeyValueCodec ") || !strings.HasSuffix(e.Info, wantComp) {
			c.Violate(id, "wire:connection-header", fmt.Sprintf("connection header %q does not announce service ClientService, user root, the KeyValue codec and %q [%s]", e.Info, wantComp, cfg), cfg)
		}
	}
	if stuck {
		c.Violate(id, "wire:senders-stuck", "senders did not finish in 120s: "+cfg.String(), cfg)
		return
	}
	col.mu.Lock()
	defer col.mu.Unlock()
	if tinyErr != nil && malformed == 0 {
		c.Violate(id, "wire:call-failed:tiny-cellblock", fmt.Sprintf("a one-cell mutation failed on a fault-free cluster: %v [%s]", tinyErr, cfg), cfg)
	} else if tinyErr == nil {
		for k, want := range tinyWant {
			got := "(never decoded)"
			if k < len(col.tiny) {
				got = col.tiny[k]
			}
			if got != want {
				c.Violate(id, "wire:decoded-differs:tiny-cellblock", fmt.Sprintf("one-cell mutation %d\n  built  : %s\n  decoded: %s\n  [%s]", k, want, got, cfg), cfg)
				break
			}
		}
		if len(col.tiny) > len(tinyWant) {
			c.Violate(id, "wire:sent-more-than-once:tiny-cellblock", fmt.Sprintf("%d one-cell mutations sent, %d decoded [%s]", len(tinyWant), len(col.tiny), cfg), cfg)
		}
	}
	for opid, s := range specs {
		c.Count("calls_"+s.Kind, 1)
		c.Count("calls_checked", 1)
		w := col.wire[opid]
		if len(w) == 0 {
			if malformed == 0 {
				c.Violate(id, "wire:call-never-decoded", fmt.Sprintf("%s %s never arrived at a server (api error: %v) [%s]", s.Kind, opid, errsByOp[opid], cfg), cfg)
			}
			continue
		}
		if s.Kind == "scan" {
			w = w[:1] // later open requests of a scan are the client's own (next region)
			// ... but every request that continues a region scanner still carries
			// the scan's priority and row count
			for _, got := range col.cont[opid] {
				c.Count("scan_continuations_checked", 1)
				if want := fmt.Sprintf("prio=%d nrows=%d", s.Prio, s.NRows); got != want {
					c.Violate(id, "wire:decoded-differs:scan-continuation", fmt.Sprintf("%s: a continuation request carries %s, the scan was built with %s [%s]", opid, got, want, cfg), cfg)
					break
				}
			}
		}
		for _, got := range w {
			want := s.Canon
			if col.inMulti[opid] {
				got, want = rePrio.ReplaceAllString(got, ""), rePrio.ReplaceAllString(want, "")
			}
			if got != want {
				c.Violate(id, "wire:decoded-differs:"+s.Kind, fmt.Sprintf("%s\n  built  : %s\n  decoded: %s\n  [%s]", opid, clip(s.Canon), clip(got), cfg), cfg)
				break
			}
		}
		if len(w) > 1 && s.Kind != "scan" && malformed == 0 {
			c.Violate(id, "wire:sent-more-than-once", fmt.Sprintf("%s decoded %d times on a fault-free cluster", opid, len(w)), cfg)
		}
		if err := errsByOp[opid]; err != nil && malformed == 0 {
			c.Violate(id, "wire:call-failed", fmt.Sprintf("%s %s failed on a fault-free cluster: %v [%s]", s.Kind, opid, err, cfg), cfg)
		}
	}
	for k, v := range col.multi {
		c.Count(fmt.Sprintf("multi_requests_over_%d_regions", k), v)
	}
	frames, compressedFrames := 0, 0
	for _, e := range cl.Log.Snapshot() {
		if e.Kind == "frame" {
			frames++
		}
	}
	_ = compressedFrames
	c.Count("frames_decoded", int64(frames))
	for k, v := range takeFilterKinds() {
		c.Count("filters_"+k, v)
		c.Count("filters_generated", v)
	}
}

func clip(s string) string {
	if len(s) > 700 {
		return s[:700] + "…"
	}
	return s
}

func init() {
	fw.Register(&fw.Prop{
		ID:    "C05",
		Level: "exploration",
		Rule: "generated gets, puts, deletes (family / family-version / column / column-version), appends, increments, " +
			"check-and-puts, scans and batches with random option combinations (time range, versions, limits, filter trees " +
			"up to depth 3 over all 29 filter classes and 7 comparators of the filter package built through their public constructors, " +
			"priority, consistency, durability, TTL, timestamps incl. latest), nil/empty qualifiers, values below and above " +
			"the compression chunk; configurations codec {none,snappy} x connection {TCP, wrapped net.Conn} x senders " +
			"{1,2,8,24} on one connection mixing batched and unbatched calls x queue size/flush interval. Every frame is " +
			"decoded by the independent codec and compared with the specification the workload kept. distinct = (configuration, " +
			"seed); a case is non-trivial when it has concurrent senders, compression or a wrapped connection",
		Assumptions: []string{"protobuf field decoding uses the generated pb package; framing, KeyValue and block compression are re-implemented in /verif/sim"},
		Plan: func(tier string) fw.Plan {
			if tier == "thorough" {
				return fw.Plan{Batches: 32, Parallel: 16, Timeout: 30 * time.Minute}
			}
			return fw.Plan{Batches: 8, Parallel: 8, Timeout: 6 * time.Minute}
		},
		Floors: func(tier string) map[string]int64 {
			return map[string]int64{"calls_checked": 5000, "calls_get": 500, "calls_put": 300, "calls_delete": 100, "calls_delete1": 100,
				"calls_append": 100, "calls_increment": 100, "calls_scan": 100, "frames_decoded": 3000, "cases_concurrent_wrapped": 10,
				"cases_snappy": 10, "cases_big_payload": 4, "connection_headers_checked": 100, "batches_with_a_call_cancelled_before_flush": 50, "scan_continuations_checked": 30, "filters_generated": 500,
				"filters_FilterList": 10, "filters_SingleColumnValueFilter": 5, "filters_ColumnRangeFilter": 5, "filters_RegexStringComparator": 5}
		},
		Run: runC05,
	})
}

func runC05(c *fw.Ctx) {
	r := c.Rand("c05")
	n := c.Pick(96, 2400) / c.NBatches
	for i := 0; i < n; i++ {
		cfg := c05Config{
			Codec:   []string{"none", "snappy"}[r.Intn(2)],
			Wrapped: r.Intn(2) == 0,
			Big:     r.Intn(6) == 0,
			Senders: []int{1, 1, 2, 8, 24}[r.Intn(5)],
			Queue:   []int{1, 2, 10, 100}[r.Intn(4)],
			Flush:   []time.Duration{0, time.Millisecond, 5 * time.Millisecond, 8 * time.Millisecond}[r.Intn(4)],
		}
		id := fmt.Sprintf("c%d-%d", c.Batch, i)
		c.Begin(id, cfg.String())
		c.Eval(fmt.Sprintf("%s|%d|%d", cfg, c.Batch, i), cfg.Senders > 1 || cfg.Codec == "snappy" || cfg.Wrapped)
		if cfg.Wrapped && cfg.Senders > 1 {
			c.Count("cases_concurrent_wrapped", 1)
		}
		if cfg.Codec == "snappy" {
			c.Count("cases_snappy", 1)
		}
		if cfg.Big {
			c.Count("cases_big_payload", 1)
		}
		ops := 40
		if cfg.Big {
			ops = 12
		}
		runC05Case(c, id, cfg, c.Seed*131+int64(c.Batch)*1009+int64(i), ops)
		if i == 0 {
			c.Sample(cfg.String())
		}
	}
}

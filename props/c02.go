package props

import (
	"bytes"
	"context"
	"encoding/binary"
	"fmt"
	"math/rand"
	"strings"
	"sync"
	"sync/atomic"
	"time"

	"verif/fw"
	"verif/sim"

	"github.com/anishathalye/porcupine"
	"github.com/tsuna/gohbase"
	"github.com/tsuna/gohbase/hrpc"
)

// C02 — each caller receives the response to its own request.
//
// Every operation carries a unique id; the simulated servers answer with
// cells derived from the request itself (or an exception carrying the id),
// delay responses at random (reordering them on the connection) and permute
// results inside multi-responses. The caller must get exactly its payload.

type c02Config struct {
	Goroutines int
	OpsPer     int
	Queue      int
	Flush      time.Duration
	Regions    int
	Servers    int
	Permute    bool
	PB         bool
	Compress   bool
	MaxDelay   time.Duration
	ExcEvery   int // every n-th op id hash gets an action-level exception (0 = never)
	RegionExc  int // probability 1/n of a region-level exception per region action
}

func (c c02Config) String() string {
	return fmt.Sprintf("G=%d ops=%d queue=%d flush=%v regions=%d servers=%d permute=%v pb=%v snappy=%v delay=%v exc=%d regexc=%d",
		c.Goroutines, c.OpsPer, c.Queue, c.Flush, c.Regions, c.Servers, c.Permute, c.PB, c.Compress, c.MaxDelay, c.ExcEvery, c.RegionExc)
}

func genC02Config(r *rand.Rand) c02Config {
	return c02Config{
		Goroutines: []int{1, 2, 8, 32, 64}[r.Intn(5)],
		OpsPer:     5 + r.Intn(15),
		Queue:      []int{1, 2, 5, 100}[r.Intn(4)],
		Flush:      []time.Duration{0, time.Millisecond, 5 * time.Millisecond}[r.Intn(3)],
		Regions:    1 + r.Intn(4),
		Servers:    1 + r.Intn(3),
		Permute:    r.Intn(2) == 0,
		PB:         r.Intn(5) == 0,
		Compress:   r.Intn(4) == 0,
		MaxDelay:   []time.Duration{0, 500 * time.Microsecond, 3 * time.Millisecond}[r.Intn(3)],
		ExcEvery:   []int{0, 5, 11}[r.Intn(3)],
		RegionExc:  []int{0, 0, 7}[r.Intn(3)],
	}
}

func cellsMatchEcho(res *hrpc.Result, row []byte, opid string) string {
	want := sim.EchoCells(row, opid)
	got := resultCells(res)
	if !cellsEqual(got, want) {
		return fmt.Sprintf("got %d cells %v, the server sent %d cells %v for this op", len(got), head(got), len(want), head(want))
	}
	return ""
}

func hashOp(s string) uint32 { return uint32(fw.Hash64(s)) }

func regionBoom(conn int64, callID uint32, region []byte) string {
	return fmt.Sprintf("region-boom-%d-%d-%x.", conn, callID, fw.Hash64(string(region)))
}

func runC02History(c *fw.Ctx, id string, cfg c02Config, seed int64) {
	cl := sim.NewCluster(seed, cfg.Servers)
	defer cl.Close()
	var bounds [][]byte
	for i := 1; i < cfg.Regions; i++ {
		bounds = append(bounds, []byte{byte('a' + i*5)})
	}
	cl.CreateTable("t", bounds, nil)
	cl.EchoResults = true
	cl.PermuteMulti = cfg.Permute
	cl.PBResults = cfg.PB
	cl.MaxReplyDelay = cfg.MaxDelay
	const excMarker = "boom-for-"
	cl.OnAction = func(req *sim.Request, a *sim.Action) *sim.Exc {
		if cfg.ExcEvery > 0 && a.OpID != "" && hashOp(a.OpID)%uint32(cfg.ExcEvery) == 0 {
			return &sim.Exc{Class: sim.ExcDoNotRetry, Stack: sim.ExcDoNotRetry + ": " + excMarker + a.OpID}
		}
		return nil
	}
	var regionExcN int32
	cl.OnRegionAction = func(req *sim.Request, region []byte) *sim.Exc {
		if cfg.RegionExc > 0 && hashOp(fmt.Sprintf("%d/%d/%s", req.Conn.ID, req.CallID, region))%uint32(cfg.RegionExc) == 0 {
			atomic.AddInt32(&regionExcN, 1)
			// the marker names the (connection, call, region) it was produced for, so
			// that a caller handed the exception of another region is told apart
			return &sim.Exc{Class: sim.ExcNoSuchCF, Stack: fmt.Sprintf("%s: %s", sim.ExcNoSuchCF, regionBoom(req.Conn.ID, req.CallID, region))}
		}
		return nil
	}
	opts := []gohbase.Option{gohbase.RpcQueueSize(cfg.Queue), gohbase.FlushInterval(cfg.Flush),
		gohbase.RegionLookupTimeout(5 * time.Second), gohbase.RegionReadTimeout(10 * time.Second)}
	if cfg.Compress {
		opts = append(opts, gohbase.CompressionCodec("snappy"))
	}
	client := newClient(cl, opts...)
	defer func() { within(5*time.Second, client.Close) }()

	type outcome struct {
		opid string
		row  []byte
		kind string
		res  *hrpc.Result
		inc  int64
		amt  int64
		err  error
		own  bool // had a context of its own that was cancelled while the batch was being sent
		sib  bool // in the same batch as such a call
	}
	var mu sync.Mutex
	var outs []outcome
	record := func(o outcome) {
		mu.Lock()
		outs = append(outs, o)
		mu.Unlock()
	}
	ctx, cancel := context.WithTimeout(context.Background(), 60*time.Second)
	defer cancel()
	var wg sync.WaitGroup
	for g := 0; g < cfg.Goroutines; g++ {
		wg.Add(1)
		go func(g int) {
			defer wg.Done()
			r := rand.New(rand.NewSource(seed*1000 + int64(g)))
			for k := 0; k < cfg.OpsPer; k++ {
				mkRow := func() []byte {
					return []byte{byte('a' + r.Intn(20)), byte('0' + r.Intn(10)), byte('A' + g%26)}
				}
				mk := func(kind string, n int) (hrpc.Call, outcome) {
					opid := fmt.Sprintf("%s%s-g%d-k%d-%d", sim.OpIDPrefix, id, g, k, n)
					row := mkRow()
					o := outcome{opid: opid, row: row, kind: kind}
					var call hrpc.Call
					vals := map[string]map[string][]byte{"f": {opid: []byte("v-" + opid)}}
					switch kind {
					case "get":
						call, _ = hrpc.NewGet(ctx, []byte("t"), row, hrpc.Families(map[string][]string{"echo": {opid}}))
					case "put":
						call, _ = hrpc.NewPut(ctx, []byte("t"), row, vals)
					case "append":
						call, _ = hrpc.NewApp(ctx, []byte("t"), row, vals)
					case "delete":
						call, _ = hrpc.NewDel(ctx, []byte("t"), row, vals)
					case "increment":
						o.amt = int64(1 + hashOp(opid)%100000)
						b := make([]byte, 8)
						binary.BigEndian.PutUint64(b, uint64(o.amt))
						call, _ = hrpc.NewInc(ctx, []byte("t"), row, map[string]map[string][]byte{"f": {opid: b}})
					}
					return call, o
				}
				kinds := []string{"get", "put", "append", "delete", "increment"}
				switch x := r.Intn(10); {
				case x < 7:
					kind := kinds[r.Intn(len(kinds))]
					call, o := mk(kind, 0)
					switch kind {
					case "get":
						o.res, o.err = client.Get(call.(*hrpc.Get))
					case "put":
						o.res, o.err = client.Put(call.(*hrpc.Mutate))
					case "append":
						o.res, o.err = client.Append(call.(*hrpc.Mutate))
					case "delete":
						o.res, o.err = client.Delete(call.(*hrpc.Mutate))
					case "increment":
						o.inc, o.err = client.Increment(call.(*hrpc.Mutate))
					}
					record(o)
				default:
					nb := 1 + r.Intn(8)
					var calls []hrpc.Call
					var os []outcome
					// one call of some batches has its own context, cancelled while the
					// batch sits in the send queue: the multi-request then goes out
					// without it and every other call must still get its own answer
					cancelAt := -1
					if nb > 1 && r.Intn(3) == 0 {
						cancelAt = r.Intn(nb - 1)
					}
					var cancelOne context.CancelFunc
					for n := 0; n < nb; n++ {
						call, o := mk(kinds[r.Intn(4)], n) // no increments in batches here
						if n == cancelAt {
							var cctx context.Context
							cctx, cancelOne = context.WithCancel(ctx)
							o.own = true
							switch o.kind {
							case "get":
								call, _ = hrpc.NewGet(cctx, []byte("t"), o.row, hrpc.Families(map[string][]string{"echo": {o.opid}}))
							default:
								o.kind = "put"
								call, _ = hrpc.NewPut(cctx, []byte("t"), o.row, map[string]map[string][]byte{"f": {o.opid: []byte("v-" + o.opid)}})
							}
						}
						o.sib = cancelAt >= 0 && n != cancelAt
						calls = append(calls, call)
						os = append(os, o)
					}
					if cancelOne != nil {
						time.AfterFunc(time.Duration(100+r.Intn(3000))*time.Microsecond, cancelOne)
					}
					res, _ := client.SendBatch(ctx, calls)
					if cancelOne != nil {
						cancelOne()
					}
					for n := range os {
						os[n].err = res[n].Error
						if res[n].Msg != nil {
							os[n].res = msgResult(res[n].Msg)
						}
						record(os[n])
					}
				}
			}
		}(g)
	}
	if !within(90*time.Second, wg.Wait) {
		c.Violate(id, "corr:workload-stuck", "callers did not finish within 90s: "+cfg.String(), cfg)
		return
	}
	// what the simulator did per op id
	type simRec struct {
		execs  int
		faults []string
		boom   string // marker of the last region-level exception answered for it
	}
	simOps := map[string]*simRec{}
	frames := map[int64][]uint32{}
	var multiSizes [4]int64
	var outOfOrder int64
	for _, e := range cl.Log.Snapshot() {
		switch e.Kind {
		case "exec", "exec-fault":
			if e.OpID == "" {
				continue
			}
			s := simOps[e.OpID]
			if s == nil {
				s = &simRec{}
				simOps[e.OpID] = s
			}
			if e.Kind == "exec" {
				s.execs++
			} else {
				s.faults = append(s.faults, e.Info)
				s.boom = regionBoom(e.Conn, e.CallID, []byte(e.Region))
			}
		case "frame":
			frames[e.Conn] = append(frames[e.Conn], e.CallID)
			if e.Method == "Multi" {
				var rg, ac int
				fmt.Sscanf(e.Info, "regions=%d actions=%d", &rg, &ac)
				switch {
				case ac == 1:
					multiSizes[0]++
				case ac < 5:
					multiSizes[1]++
				case ac < 20:
					multiSizes[2]++
				default:
					multiSizes[3]++
				}
			}
		case "reply":
			q := frames[e.Conn]
			if len(q) > 0 && q[0] != e.CallID {
				outOfOrder++
			}
			for i, id := range q {
				if id == e.CallID {
					frames[e.Conn] = append(q[:i:i], q[i+1:]...)
					break
				}
			}
		case "malformed", "misroute":
			c.Violate(id, "corr:"+e.Kind, e.Info+" "+cfg.String(), cfg)
		}
	}
	c.Count("multi_requests_1_action", multiSizes[0])
	c.Count("multi_requests_2_4_actions", multiSizes[1])
	c.Count("multi_requests_5_19_actions", multiSizes[2])
	c.Count("multi_requests_20plus_actions", multiSizes[3])
	c.Count("responses_delivered_out_of_order", outOfOrder)
	for _, o := range outs {
		if o.own {
			// cancelled by its caller: whether it was sent is a matter of timing
			c.Count("calls_cancelled_inside_a_batch", 1)
			if simOps[o.opid] == nil {
				c.Count("calls_cancelled_before_being_sent", 1)
			}
			if o.err == nil && o.res == nil {
				c.Violate(id, "corr:no-result", fmt.Sprintf("%s %s (own context cancelled): neither response nor error: %s", o.kind, o.opid, cfg), cfg)
			}
			continue
		}
		s := simOps[o.opid]
		if o.sib && s == nil && o.err != nil && strings.Contains(o.err.Error(), "not executed due to another error") {
			// the cancelled call ended the batch before anything was sent
			c.Count("calls_not_executed_because_a_sibling_was_cancelled", 1)
			continue
		}
		c.Count("operations_matched", 1)
		if s == nil {
			c.Violate(id, "corr:op-never-reached-server", fmt.Sprintf("%s %s returned (err=%v) but no server saw it: %s", o.kind, o.opid, o.err, cfg), cfg)
			continue
		}
		if len(s.faults) > 0 {
			// the server failed this op: the caller must get that very exception
			c.Count("exceptions_matched", 1)
			f := s.faults[len(s.faults)-1]
			if o.err == nil {
				c.Violate(id, "corr:exception-lost", fmt.Sprintf("%s %s: server answered with %s, caller got success %v: %s", o.kind, o.opid, f, o.res, cfg), cfg)
				continue
			}
			if strings.HasPrefix(f, "region-level") {
				if !strings.Contains(o.err.Error(), s.boom) {
					c.Violate(id, "corr:wrong-error", fmt.Sprintf("%s %s: server failed its region (%s, marker %s), caller got %v: %s", o.kind, o.opid, f, s.boom, o.err, cfg), cfg)
				}
				c.Count("region_level_exceptions_matched", 1)
			} else if !strings.Contains(o.err.Error(), excMarker+o.opid) {
				c.Violate(id, "corr:wrong-error", fmt.Sprintf("%s %s: caller got the error of another operation: %v: %s", o.kind, o.opid, o.err, cfg), cfg)
			}
			continue
		}
		if o.err != nil {
			c.Violate(id, "corr:spurious-error", fmt.Sprintf("%s %s: server executed it successfully, caller got error %v: %s", o.kind, o.opid, o.err, cfg), cfg)
			continue
		}
		if s.execs != 1 {
			c.Violate(id, "corr:executed-not-once", fmt.Sprintf("%s %s executed %d times on a fault-free cluster: %s", o.kind, o.opid, s.execs, cfg), cfg)
		}
		switch o.kind {
		case "increment":
			if o.inc != o.amt {
				c.Violate(id, "corr:wrong-payload", fmt.Sprintf("increment %s by %d on a fresh column returned %d: %s", o.opid, o.amt, o.inc, cfg), cfg)
			}
		case "get":
			if hashOp2(o.opid)%7 == 0 {
				if o.res != nil && len(o.res.Cells) != 0 {
					c.Violate(id, "corr:wrong-payload", fmt.Sprintf("get %s: server sent zero cells, caller got %d: %s", o.opid, len(o.res.Cells), cfg), cfg)
				}
				c.Count("zero_cell_results", 1)
				continue
			}
			fallthrough
		default:
			if o.res == nil {
				c.Violate(id, "corr:wrong-payload", fmt.Sprintf("%s %s: nil result: %s", o.kind, o.opid, cfg), cfg)
			} else if d := cellsMatchEcho(o.res, o.row, o.opid); d != "" {
				c.Violate(id, "corr:wrong-payload", fmt.Sprintf("%s %s: %s: %s", o.kind, o.opid, d, cfg), cfg)
			}
		}
	}
}

// hashOp2 mirrors the simulator's choice of zero-cell get results.
func hashOp2(opid string) uint32 { return sim.Hash32(opid) }

func init() {
	fw.Register(&fw.Prop{
		ID:    "C02",
		Level: "exploration",
		Rule: "histories of G in {1,2,8,32,64} concurrent callers x 5..19 operations (get/put/append/delete/increment and " +
			"SendBatch of 1..8 calls) on 1..4 regions / 1..3 servers with queue size {1,2,5,100}, flush interval {0,1,5 ms}; the " +
			"simulated servers delay every response by a random time (reordering them), permute results inside " +
			"multi-responses, send cells as cellblocks / protobuf / compressed, zero-cell results, per-action and " +
			"per-region exceptions; each caller's result is compared with the payload the server derived from that " +
			"caller's own request. Plus register histories (concurrent put/get with unique values on few rows) checked for " +
			"linearizability with porcupine. distinct = distinct configuration+seed; non-trivial = more than one caller or a batch",
		Assumptions: []string{"the simulator is linearizable by construction (one mutex around each operation)"},
		Plan: func(tier string) fw.Plan {
			if tier == "thorough" {
				return fw.Plan{Batches: 32, Parallel: 16, Timeout: 30 * time.Minute}
			}
			return fw.Plan{Batches: 8, Parallel: 8, Timeout: 6 * time.Minute}
		},
		Floors: func(tier string) map[string]int64 {
			return map[string]int64{"histories": 60, "operations_matched": 10000, "responses_delivered_out_of_order": 200,
				"multi_requests_5_19_actions": 50, "exceptions_matched": 200, "zero_cell_results": 50, "porcupine_partitions_ok": 50}
		},
		Run: runC02,
	})
}

func runC02(c *fw.Ctx) {
	r := c.Rand("c02")
	n := c.Pick(96, 2400) / c.NBatches
	for i := 0; i < n; i++ {
		cfg := genC02Config(r)
		id := fmt.Sprintf("h%d-%d", c.Batch, i)
		c.Begin(id, cfg)
		c.Eval(fmt.Sprintf("%s|%d", cfg, i), cfg.Goroutines > 1)
		c.Count("histories", 1)
		runC02History(c, id, cfg, c.Seed*100000+int64(c.Batch)*1000+int64(i))
		if i == 0 {
			c.Sample(cfg.String())
		}
	}
	for i := 0; i < c.Pick(24, 400)/c.NBatches; i++ {
		runC02Register(c, fmt.Sprintf("reg%d-%d", c.Batch, i), c.Seed*7777+int64(c.Batch)*100+int64(i), r)
	}
}

type regIn struct {
	Write bool
	Key   string
	Val   string
}

// runC02Register: concurrent put/get on few rows against the real data model,
// checked for linearizability per row.
func runC02Register(c *fw.Ctx, id string, seed int64, r *rand.Rand) {
	cl := sim.NewCluster(seed, 2)
	defer cl.Close()
	cl.CreateTable("t", [][]byte{[]byte("m")}, nil)
	cl.MaxReplyDelay = time.Duration(r.Intn(3)) * time.Millisecond
	cl.PermuteMulti = true
	client := newClient(cl, gohbase.RpcQueueSize([]int{1, 5, 100}[r.Intn(3)]), gohbase.FlushInterval(time.Millisecond),
		gohbase.RegionLookupTimeout(5*time.Second), gohbase.RegionReadTimeout(10*time.Second))
	defer func() { within(5*time.Second, client.Close) }()
	c.Begin(id, "register")
	var mu sync.Mutex
	var ops []porcupine.Operation
	t0 := time.Now()
	var wg sync.WaitGroup
	G := 2 + r.Intn(4)
	ctx, cancel := context.WithTimeout(context.Background(), 30*time.Second)
	defer cancel()
	for g := 0; g < G; g++ {
		wg.Add(1)
		go func(g int) {
			defer wg.Done()
			rr := rand.New(rand.NewSource(seed*31 + int64(g)))
			for k := 0; k < 12; k++ {
				key := []string{"a", "b", "x"}[rr.Intn(3)]
				if rr.Intn(2) == 0 {
					val := fmt.Sprintf("%s-%d-%d", id, g, k)
					p, _ := hrpc.NewPutStr(ctx, "t", key, map[string]map[string][]byte{"f": {"q": []byte(val)}})
					call := time.Since(t0).Nanoseconds()
					_, err := client.Put(p)
					ret := time.Since(t0).Nanoseconds()
					if err != nil {
						ret = 1 << 62 // unknown outcome: stays open
					}
					mu.Lock()
					ops = append(ops, porcupine.Operation{ClientId: g, Input: regIn{true, key, val}, Call: call, Output: "", Return: ret})
					mu.Unlock()
				} else {
					gt, _ := hrpc.NewGetStr(ctx, "t", key, hrpc.Families(map[string][]string{"f": {"q"}}))
					call := time.Since(t0).Nanoseconds()
					res, err := client.Get(gt)
					ret := time.Since(t0).Nanoseconds()
					if err != nil {
						continue
					}
					out := ""
					if len(res.Cells) > 0 {
						out = string(res.Cells[0].Value)
					}
					mu.Lock()
					ops = append(ops, porcupine.Operation{ClientId: g, Input: regIn{false, key, ""}, Call: call, Output: out, Return: ret})
					mu.Unlock()
				}
			}
		}(g)
	}
	if !within(60*time.Second, wg.Wait) {
		c.Violate(id, "corr:workload-stuck", "register workload stuck", nil)
		return
	}
	model := porcupine.Model{
		Partition: func(h []porcupine.Operation) [][]porcupine.Operation {
			m := map[string][]porcupine.Operation{}
			for _, o := range h {
				k := o.Input.(regIn).Key
				m[k] = append(m[k], o)
			}
			var out [][]porcupine.Operation
			for _, v := range m {
				out = append(out, v)
			}
			return out
		},
		Init: func() interface{} { return "" },
		Step: func(st, in, out interface{}) (bool, interface{}) {
			i := in.(regIn)
			if i.Write {
				return true, i.Val
			}
			return out.(string) == st.(string), st
		},
	}
	res := porcupine.CheckOperationsTimeout(model, ops, 20*time.Second)
	c.Eval("register|"+id, true)
	switch res {
	case porcupine.Ok:
		c.Count("porcupine_partitions_ok", 3)
		c.Count("porcupine_operations", int64(len(ops)))
	case porcupine.Unknown:
		c.Inconclusive("porcupine-timeout")
	default:
		var sb strings.Builder
		for _, o := range ops {
			fmt.Fprintf(&sb, "c%d %v -> %q [%d,%d]; ", o.ClientId, o.Input, o.Output, o.Call, o.Return)
		}
		c.Violate(id, "corr:history-not-linearizable", "client-observed put/get history on a linearizable server is not linearizable: "+sb.String(), nil)
	}
}

var _ = bytes.Equal

package props

import (
	"context"
	"errors"
	"fmt"
	"io"
	"net"
	"strings"
	"sync"
	"sync/atomic"
	"time"

	"verif/faultconn"
	"verif/fw"
	"verif/sim"

	"github.com/tsuna/gohbase"
	"github.com/tsuna/gohbase/hrpc"
)

// C14 — scanners terminate cleanly and release server-side scanners.

type c14Case struct {
	Scan  scanCase
	End   string // exhaust close-after cancel-between cancel-during rpc-error rpc-retryable early-no-more response-lost
	J     int    // Next calls before the ending event
	R     int    // which scan request is hit (1-based)
	Renew bool
	// Pause: the caller waits this long between Next calls (longer than the
	// renew interval, so that renewals happen wherever the scan is positioned)
	Pause time.Duration
}

// expiringCtx is a context that reaches its deadline when fire() is called:
// Err() is context.DeadlineExceeded (a cancellation reads context.Canceled).
type expiringCtx struct {
	context.Context
	done chan struct{}
	once sync.Once
}

func newExpiringCtx() *expiringCtx {
	return &expiringCtx{Context: context.Background(), done: make(chan struct{})}
}
func (e *expiringCtx) fire()                 { e.once.Do(func() { close(e.done) }) }
func (e *expiringCtx) Done() <-chan struct{} { return e.done }
func (e *expiringCtx) Err() error {
	select {
	case <-e.done:
		return context.DeadlineExceeded
	default:
		return nil
	}
}

type nextRec struct {
	Rows   int // cells>0
	Err    string
	IsEOF  bool
	IsCtx  bool
	HasRes bool
}

func init() {
	fw.Register(&fw.Prop{
		ID:    "C14",
		Level: "fault_enumeration",
		Rule: "enumerated: a 4-row scan over 2 regions (one row per response, forward and reversed) ended in each of the 7 ways at every " +
			"point (j = 0..5 Next calls, r = 1..6 scan requests); then the scan cases of C06, each ended in one of the ways {exhausted, Close after j Next calls, context cancelled " +
			"between fetches after j calls, context cancelled while the r-th scan request is unanswered, non-retryable " +
			"RPC error on the r-th scan request, retryable error on the r-th request, server says more_results=false at " +
			"the r-th response (no request may follow), response to the r-th request lost}, with and without scanner renewal, slow consumers, held close acknowledgements; (j, r) drawn over the whole length of the scan. Judged: " +
			"the (result, error) sequence of Next against the automaton rows* (error)? EOF*, rows being a prefix of the " +
			"model, cells delivered before a failing request = cells handed out (the error carries the row being assembled), Close latency/idempotence, and conservation opened = exhausted + closed per scan on the simulated " +
			"servers. distinct = (scan case, ending, j, r); all non-trivial",
		Assumptions: []string{"a server-side scanner counts as released when the server closed it (region exhausted, more_results=false) or a close request for it arrived"},
		Plan: func(tier string) fw.Plan {
			if tier == "thorough" {
				return fw.Plan{Batches: 32, Parallel: 16, Timeout: 30 * time.Minute}
			}
			return fw.Plan{Batches: 8, Parallel: 8, Timeout: 6 * time.Minute}
		},
		Floors: func(tier string) map[string]int64 {
			return map[string]int64{"scans": 500, "end_exhaust": 30, "end_close-after": 50, "end_cancel-between": 50, "end_cancel-during": 30,
				"end_rpc-error": 30, "end_rpc-retryable": 30, "end_early-no-more": 30, "scanners_opened": 800, "close_requests_seen": 100,
				"errors_reported": 50, "enumerated_ending_points": 60, "cell_conservation_checks": 20}
		},
		Run: runC14,
	})
}

// c14CloseBehindStuckWriter: the regionserver has stopped reading, the socket
// is full, and the scanner's lease renewal is stuck in (or behind) a Write that
// nothing can interrupt. Close must still return at once: it does not wait for
// the renewer, and the close request is sent on its own.
func c14CloseBehindStuckWriter(c *fw.Ctx, n int) {
	for i := 0; i < n; i++ {
		id := fmt.Sprintf("close-behind-stuck-writer-%d", i)
		c.Begin(id, id)
		func() {
			cl := sim.NewCluster(c.Seed*31+int64(i), 2)
			defer cl.Close()
			cl.CreateTable("t", nil, func(int) string { return "rs1:16020" })
			cl.Load("t", cellsFor("p1", 2))
			cl.Load("t", cellsFor("p2", 2))
			cl.Load("t", cellsFor("p3", 2))
			cl.ScanPolicy = func(x *sim.ScanCtx) sim.ScanChunk { return sim.ScanChunk{Rows: 1} }
			var lastWriteStart atomic.Value
			var writeBlocked int32
			cl.WrapConn = func(addr string, conn net.Conn) net.Conn {
				fc := faultconn.New(conn, nil)
				if addr == "rs1:16020" {
					fc.OnWrite = func(b []byte) { lastWriteStart.Store(time.Now()); atomic.StoreInt32(&writeBlocked, 1) }
					fc.BeforeWriteReturn = func(int) { atomic.StoreInt32(&writeBlocked, 0) }
				}
				return fc
			}
			client := newClient(cl, gohbase.RpcQueueSize(1), gohbase.RegionLookupTimeout(120*time.Second), gohbase.RegionReadTimeout(120*time.Second))
			defer func() { go client.Close() }()
			sc, _ := hrpc.NewScanStr(context.Background(), "t", hrpc.NumberOfRows(1), hrpc.RenewInterval(1500*time.Millisecond),
				hrpc.Attribute("opid", []byte(sim.OpIDPrefix+id)))
			scanner := client.Scan(sc)
			var err error
			if !within(10*time.Second, func() { _, err = scanner.Next() }) || err != nil {
				c.Inconclusive("stuck-writer-scan-did-not-start")
				return
			}
			tNext := time.Now() // the renewer starts now; its first renewal is due 1.5s from here
			stall := make(chan struct{})
			cl.Server("rs1:16020").SetStall(stall)
			defer close(stall)
			fillCtx, fillCancel := context.WithCancel(context.Background())
			defer fillCancel()
			big := make([]byte, 1<<20)
			go func() {
				for k := 0; k < 64 && fillCtx.Err() == nil; k++ {
					p, _ := hrpc.NewPutStr(fillCtx, "t", "p1", map[string]map[string][]byte{"f": {fmt.Sprintf("fill%d", k): big}})
					go client.Put(p)
					time.Sleep(10 * time.Millisecond)
				}
			}()
			blocked := false
			for k := 0; k < 600 && !blocked; k++ {
				time.Sleep(10 * time.Millisecond)
				t, _ := lastWriteStart.Load().(time.Time)
				blocked = atomic.LoadInt32(&writeBlocked) == 1 && !t.IsZero() && time.Since(t) > 300*time.Millisecond
			}
			if !blocked {
				c.Inconclusive("send-queue-never-blocked")
				return
			}
			if time.Since(tNext) > 1400*time.Millisecond {
				// the first renewal went out before the socket was full: it waits for an
				// answer, not for the writer
				c.Inconclusive("socket-filled-too-late-for-the-first-renewal")
				return
			}
			time.Sleep(time.Until(tNext.Add(1700 * time.Millisecond))) // the first renewal is now queued behind the blocked Write
			c.Count("closes_behind_a_stuck_writer", 1)
			c.Eval(id, true)
			if !within(3*time.Second, func() { scanner.Close() }) {
				c.Violate(id, "scanner:close-blocks:renewal-stuck-behind-blocked-write", "Close of a renewing scanner did not return within 3s while the regionserver had stopped reading and the socket was full", id)
			}
		}()
	}
}

func runC14(c *fw.Ctx) {
	if c.Batch == 0 {
		c14CloseBehindStuckWriter(c, c.Pick(2, 8))
	}
	// enumerated part: a fixed small scan (4 rows x 2 cells over 2 regions, one
	// row per response) ended in every way at every point j (Next calls) / r
	// (scan request hit)
	{
		k := 0
		for _, end := range []string{"exhaust", "close-after", "cancel-between", "cancel-during", "rpc-error", "rpc-retryable", "early-no-more", "response-lost"} {
			for _, rev := range []bool{false, true} {
				for j := 0; j <= 5; j++ {
					for rr := 1; rr <= 6; rr++ {
						if (end == "exhaust" && (j > 0 || rr > 1)) || ((end == "close-after" || end == "cancel-between") && rr > 1) ||
							((end == "cancel-during" || end == "rpc-error" || end == "rpc-retryable" || end == "early-no-more" || end == "response-lost") && j > 0) {
							continue
						}
						k++
						if k%c.NBatches != c.Batch {
							continue
						}
						sc := scanCase{Seed: int64(k), Rows: []string{"a", "b", "n", "p"}, CellsPer: []int{2, 2, 2, 2}, Bounds: []string{"m"},
							Start: "", Stop: "", Reversed: rev, NumRows: 1, Servers: 2}
						if rev {
							sc.Start = "z"
						}
						cs := c14Case{Scan: sc, End: end, J: j, R: rr, Renew: k%3 == 0}
						if cs.Renew {
							cs.Scan.Renew = 15 * time.Millisecond
							if k%2 == 0 { // a slow consumer: renewals between any two Next calls
								cs.Scan.Renew = 4 * time.Millisecond
								cs.Pause = 10 * time.Millisecond
							}
						}
						id := fmt.Sprintf("enum-%d", k)
						c.Begin(id, cs)
						c.Eval(fmt.Sprintf("enum|%s|%v|%d|%d", end, rev, j, rr), true)
						c.Count("scans", 1)
						c.Count("end_"+end, 1)
						c.Count("enumerated_ending_points", 1)
						c14Run(c, id, cs, sc.model(), fmt.Sprintf("c14e-%d-%d", c.Batch, k))
					}
				}
			}
		}
	}
	r := c.Rand("c14")
	n := c.Pick(800, 24000) / c.NBatches
	ends := []string{"exhaust", "close-after", "close-after", "cancel-between", "cancel-between", "cancel-during", "rpc-error", "rpc-error", "rpc-retryable", "early-no-more", "response-lost", "response-lost"}
	for i := 0; i < n; i++ {
		cs := c14Case{Scan: genScanCase(r), End: ends[r.Intn(len(ends))]}
		model := cs.Scan.model()
		cs.J = r.Intn(len(model) + 2)
		cs.R = 1 + r.Intn(6)
		if r.Intn(4) == 0 {
			cs.Renew = true
			cs.Scan.Renew = 15 * time.Millisecond
			if r.Intn(2) == 0 {
				cs.Scan.Renew = 4 * time.Millisecond
				cs.Pause = 10 * time.Millisecond
			}
		}
		id := fmt.Sprintf("scan-%d", i)
		c.Begin(id, cs)
		c.Eval(fmt.Sprintf("%s|%s|%d|%d|%v", cs.Scan.sig(), cs.End, cs.J, cs.R, cs.Renew), true)
		c.Count("scans", 1)
		c.Count("end_"+cs.End, 1)
		c14Run(c, id, cs, model, fmt.Sprintf("c14-%d-%d", c.Batch, i))
		if i == 2 {
			c.Sample(cs)
		}
	}
}

func c14Run(c *fw.Ctx, id string, cs c14Case, model []modelRow, opid string) {
	var scanReqs int32
	hold := make(chan struct{})
	var holdOnce sync.Once
	release := func() { holdOnce.Do(func() { close(hold) }) }
	arrived := make(chan struct{}, 1)
	var cl *sim.Cluster
	var respN int32
	policy := func(x *sim.ScanCtx) sim.ScanChunk {
		ch := sim.DefaultScanPolicy(x)
		return ch
	}
	cl, client := cs.Scan.setup(policy)
	defer cl.Close()
	defer release()
	var faulted, heldOpen, lostOpen int32
	slowClose := cs.Scan.Seed%3 == 0 // the servers take their time to acknowledge close requests
	slowRenew := cs.Scan.Seed%4 == 1 // renewals are answered only when the case is over
	cl.OnRequest = func(req *sim.Request) *sim.Reply {
		if slowRenew && req.Scan != nil && req.Scan.GetRenew() {
			// Close, Next and cancellation must not wait for a renewal in flight
			c.Count("renewals_left_unanswered", 1)
			return &sim.Reply{HoldDefault: hold}
		}
		if slowClose && req.Scan != nil && req.Scan.GetCloseScanner() && req.Scan.ScannerId != nil {
			// (handled at once - the scanner is released - but acknowledged only when
			// the case is over: Close and Next must not wait for it)
			return &sim.Reply{HoldDefault: hold}
		}
		if req.Scan == nil || cl.ScanOpID(req) != opid || req.Scan.GetCloseScanner() && req.Scan.ScannerId != nil || req.Scan.GetRenew() {
			return nil
		}
		k := int(atomic.AddInt32(&scanReqs, 1))
		if k != cs.R {
			return nil
		}
		switch cs.End {
		case "rpc-error":
			atomic.StoreInt32(&faulted, 1)
			return &sim.Reply{Exc: &sim.Exc{Class: sim.ExcDoNotRetry, Stack: sim.ExcDoNotRetry + ": injected for " + opid}}
		case "rpc-retryable":
			atomic.StoreInt32(&faulted, 1)
			return &sim.Reply{Exc: &sim.Exc{Class: sim.ExcTooBusy}}
		case "response-lost":
			// the server processes the request (its scanner advances), then the
			// connection dies before the response is written
			atomic.StoreInt32(&faulted, 1)
			if req.Scan.ScannerId == nil {
				atomic.StoreInt32(&lostOpen, 1)
			}
			return &sim.Reply{DefaultThenKill: true}
		}
		return nil
	}
	if cs.End == "cancel-during" || cs.End == "early-no-more" {
		// these act on the reply of the r-th request: wrap the default handling
		cl.ScanPolicy = func(x *sim.ScanCtx) sim.ScanChunk {
			ch := sim.DefaultScanPolicy(x)
			return ch
		}
	}
	_ = respN
	ctx, cancel := context.WithCancel(context.Background())
	if cs.Scan.Seed%2 == 1 {
		// the context ends by deadline instead of by cancellation
		ectx := newExpiringCtx()
		ctx, cancel = ectx, ectx.fire
		c.Count("contexts_ending_by_deadline", 1)
	}
	defer cancel()
	if cs.End == "cancel-during" {
		inner := cl.OnRequest
		cl.OnRequest = func(req *sim.Request) *sim.Reply {
			if rep := inner(req); rep != nil {
				return rep
			}
			if req.Scan == nil || cl.ScanOpID(req) != opid || req.Scan.GetRenew() || (req.Scan.GetCloseScanner() && req.Scan.ScannerId != nil) {
				return nil
			}
			if int(atomic.LoadInt32(&scanReqs)) == cs.R && atomic.CompareAndSwapInt32(&faulted, 0, 1) {
				if req.Scan.Scan != nil {
					atomic.StoreInt32(&heldOpen, 1)
				}
				select {
				case arrived <- struct{}{}:
				default:
				}
				return &sim.Reply{HoldDefault: hold}
			}
			return nil
		}
	}
	if cs.End == "early-no-more" {
		cl.ForceNoMoreResults = func(req *sim.Request) bool {
			return cl.ScanOpID(req) == opid && int(atomic.LoadInt32(&scanReqs)) == cs.R && atomic.CompareAndSwapInt32(&faulted, 0, 1)
		}
	}
	scanner := client.Scan(cs.Scan.newScan(ctx, opid))
	var seq []nextRec
	var got []*hrpc.Result
	stuck := false
	next := func() (done bool) {
		var res *hrpc.Result
		var err error
		if cs.Pause > 0 && len(seq) > 0 {
			time.Sleep(cs.Pause)
		}
		if !within(20*time.Second, func() { res, err = scanner.Next() }) {
			stuck = true
			return true
		}
		// (with partial results allowed, a fragment without cells is a result)
		rec := nextRec{HasRes: res != nil && (len(res.Cells) > 0 || (cs.Scan.Partials && res.Partial))}
		if err != nil {
			rec.Err = err.Error()
			rec.IsEOF = err == io.EOF
			rec.IsCtx = errors.Is(err, context.Canceled) || errors.Is(err, context.DeadlineExceeded)
		}
		seq = append(seq, rec)
		if rec.HasRes {
			got = append(got, res)
		}
		return err != nil
	}
	closeOK := func(what string) {
		if !within(3*time.Second, func() { scanner.Close() }) {
			c.Violate(id, "scanner:close-blocks", fmt.Sprintf("%s did not return within 3s (%s)", what, cs.End), cs)
		}
	}
	ended := false
	switch cs.End {
	case "exhaust", "rpc-error", "rpc-retryable", "early-no-more", "response-lost":
		for k := 0; k < len(model)*8+20 && !ended; k++ {
			ended = next()
		}
	case "close-after":
		for k := 0; k < cs.J && !ended; k++ {
			ended = next()
		}
		closeOK("Close")
		closeOK("second Close")
		for k := 0; k < len(model)*8+20 && !ended; k++ {
			ended = next()
		}
	case "cancel-between":
		for k := 0; k < cs.J && !ended; k++ {
			ended = next()
		}
		cancel()
		for k := 0; k < len(model)*8+20 && !ended; k++ {
			ended = next()
		}
	case "cancel-during":
		doneNext := make(chan struct{})
		go func() {
			defer close(doneNext)
			for k := 0; k < len(model)*8+20 && !ended; k++ {
				ended = next()
			}
		}()
		select {
		case <-arrived:
			cancel()
			c.Count("cancelled_with_request_outstanding", 1)
		case <-doneNext:
		case <-time.After(25 * time.Second):
		}
		select {
		case <-doneNext:
		case <-time.After(25 * time.Second):
			stuck = true
		}
		release()
	}
	if stuck {
		c.Violate(id, "scanner:next-stuck", fmt.Sprintf("Next did not return within 20s (%s j=%d r=%d): %s", cs.End, cs.J, cs.R, cs.Scan.sig()), cs)
		within(3*time.Second, client.Close)
		return
	}
	// after the end: further calls must answer end-of-scan
	if ended {
		for k := 0; k < 3; k++ {
			next()
		}
	}
	closeOK("Close after the end")
	closeOK("Close after Close")
	// automaton: rows* (err)? EOF*
	errs := 0
	state := "rows"
	for k, rec := range seq {
		switch {
		case rec.IsEOF:
			if rec.HasRes {
				c.Violate(id, "scanner:result-with-eof", fmt.Sprintf("call %d returned a result together with EOF", k), cs)
			}
			state = "eof"
		case rec.Err != "":
			errs++
			// (an error first reported after a natural end-of-scan, e.g. a
			// cancellation that happened later, is not judged: the statement
			// only constrains what follows an error)
			if errs > 1 {
				f := "scanner:error-reported-again"
				if rec.IsCtx {
					f = "scanner:context-error-reported-again"
				}
				c.Violate(id, f, fmt.Sprintf("Next call %d returned error %q after the scan had already reported %s (sequence %s)", k, rec.Err, map[bool]string{true: "an error", false: "end-of-scan"}[errs > 1], seqString(seq)), cs)
			}
			state = "eof"
		default:
			if state == "eof" && cs.End != "close-after" {
				c.Violate(id, "scanner:row-after-end", fmt.Sprintf("Next call %d returned a row after end-of-scan/error (sequence %s)", k, seqString(seq)), cs)
			}
			if !rec.HasRes {
				c.Violate(id, "scanner:nil-result-nil-error", fmt.Sprintf("Next call %d returned neither a row nor an error", k), cs)
			}
		}
	}
	if errs > 0 {
		c.Count("errors_reported", 1)
	}
	// expected error presence
	switch cs.End {
	case "exhaust", "rpc-retryable":
		if errs != 0 {
			c.Violate(id, "scanner:unexpected-error", fmt.Sprintf("%s: error reported: %s", cs.End, seqString(seq)), cs)
		}
	case "rpc-error":
		if atomic.LoadInt32(&faulted) == 1 && errs != 1 {
			c.Violate(id, "scanner:error-not-reported-once", fmt.Sprintf("injected RPC error on request %d was reported %d times: %s", cs.R, errs, seqString(seq)), cs)
		}
	}
	// rows: prefix of (or equal to) the model
	// (a lost response may end the scan with an error; if it does not, nothing may be missing)
	full := (cs.End == "exhaust" || cs.End == "rpc-retryable") || (cs.End == "response-lost" && errs == 0) || (atomic.LoadInt32(&faulted) == 0 && cs.End != "close-after" && cs.End != "cancel-between" && cs.End != "cancel-during")
	if cs.End == "cancel-between" && cs.J > len(got) {
		full = errs == 0
	}
	// an error or a Close by the caller may leave the last row incomplete
	if cs.End == "response-lost" && atomic.LoadInt32(&faulted) == 1 {
		// what a scan returns after a lost response is C06's subject; here only
		// termination and the release of server-side scanners are judged
	} else if f, d := compareScan(got, model, cs.Scan.Partials, !full, cs.Scan.Partials || errs > 0 || cs.End == "close-after"); f != "" {
		c.Violate(id, f, d+" :: "+cs.End+" "+cs.Scan.sig(), cs)
	}
	// an error comes together with the row assembled so far: when the r-th request
	// fails, every earlier response has been consumed completely, so the cells the
	// servers delivered for this scan and the cells Next handed out must be equal
	if cs.End == "rpc-error" && atomic.LoadInt32(&faulted) == 1 && errs == 1 {
		var sent, handed int
		for _, e := range cl.Log.Snapshot() {
			if e.Kind == "scan-reply" && e.OpID == opid {
				if i := strings.Index(e.Info, "cells="); i >= 0 {
					var n int
					fmt.Sscanf(e.Info[i:], "cells=%d", &n)
					sent += n
				}
			}
		}
		for _, r := range got {
			handed += len(r.Cells)
		}
		c.Count("cell_conservation_checks", 1)
		if sent != handed {
			c.Violate(id, "scanner:assembled-row-lost", fmt.Sprintf("the servers delivered %d cells before request %d failed, Next handed out %d (the fragments of the row being assembled must come with the error): %s :: %s",
				sent, cs.R, handed, seqString(seq), cs.Scan.sig()), cs)
		}
	}
	// once a response has said more_results=false the scan is over: the client may
	// close the scanner, but must not ask it (or any other region) for more rows
	if cs.End == "early-no-more" && atomic.LoadInt32(&faulted) == 1 {
		ended := false
		for _, e := range cl.Log.Snapshot() {
			if e.OpID != opid {
				continue
			}
			if e.Kind == "scan-reply" && strings.Contains(e.Info, "forced-no-more-results") {
				ended = true
				c.Count("scans_ended_by_the_server_mid_region", 1)
				continue
			}
			if ended && (e.Kind == "scan-reply" || e.Kind == "scanner-open") {
				c.Violate(id, "scanner:request-after-server-ended-scan", fmt.Sprintf("response %d said more_results=false (more_results_in_region=true), yet the client went on: %s %s: %s :: %s",
					cs.R, e.Kind, e.Info, seqString(seq), cs.Scan.sig()), cs)
				break
			}
		}
	}
	// conservation on the servers: poll until every scanner of this scan is gone
	deadline := time.Now().Add(3 * time.Second)
	var left []uint64
	for {
		left = cl.OpenScannersFor(opid)
		if len(left) == 0 || time.Now().After(deadline) {
			break
		}
		time.Sleep(5 * time.Millisecond)
	}
	var opened, closedReq int64
	for _, e := range cl.Log.Snapshot() {
		if e.OpID != opid {
			continue
		}
		switch e.Kind {
		case "scanner-open":
			opened++
		case "scanner-close":
			c.Count("scanner_closed_"+e.Info, 1)
			if e.Info == "close-request" {
				closedReq++
			}
		}
	}
	c.Count("scanners_opened", opened)
	c.Count("close_requests_seen", closedReq)
	if len(left) == 0 {
		// scanners the servers cannot attribute to this scan (opened by a request
		// that did not carry the scan's attributes): the cluster serves nothing else
		for i := 0; i < 100; i++ {
			if left = cl.OpenScanners(); len(left) == 0 {
				break
			}
			time.Sleep(5 * time.Millisecond)
		}
		if len(left) > 0 {
			var how []string
			for _, e := range cl.Log.Snapshot() {
				if e.Kind == "scanner-open" {
					for _, id := range left {
						if uint64(e.N) == id {
							how = append(how, fmt.Sprintf("scanner %d opened on %s region %q start row %q (%s)", id, e.Server, e.Region, e.Row, e.Info))
						}
					}
				}
			}
			c.Violate(id, "scanner:leaked-server-scanner:opened-without-scan-attributes", fmt.Sprintf("%d region scanner(s) still open on the servers after the scan ended (%s j=%d r=%d renew=%v pause=%v): %s: %s",
				len(left), cs.End, cs.J, cs.R, cs.Scan.Renew, cs.Pause, strings.Join(how, "; "), cs.Scan.sig()), cs)
			left = nil
		}
	}
	if len(left) > 0 {
		f := "scanner:leaked-server-scanner"
		if cs.End == "cancel-during" && atomic.LoadInt32(&heldOpen) == 1 && len(left) == 1 {
			f = "scanner:leaked-server-scanner:cancelled-while-open-request-unanswered"
		}
		if cs.End == "response-lost" && atomic.LoadInt32(&lostOpen) == 1 && len(left) == 1 {
			// the lost response was the one carrying the id of a freshly opened scanner
			f = "scanner:leaked-server-scanner:response-to-open-request-lost"
		}
		c.Violate(id, f, fmt.Sprintf("%d region scanner(s) %v still open on the servers 3s after the scan ended (%s j=%d r=%d): %s",
			len(left), left, cs.End, cs.J, cs.R, cs.Scan.sig()), cs)
	}
	if cs.Renew {
		// no renewal may arrive once the scan has ended and in-flight ones have drained
		time.Sleep(3 * cs.Scan.Renew)
		mark := cl.Log.Len()
		time.Sleep(5 * cs.Scan.Renew)
		late := 0
		for _, e := range cl.Log.Snapshot()[mark:] {
			if e.Kind == "scanner-renew" && e.OpID == opid {
				late++
			}
		}
		c.Count("renew_checked", 1)
		if late > 0 {
			c.Violate(id, "scanner:renew-after-end", fmt.Sprintf("%d renewal request(s) arrived after the scan had ended", late), cs)
		}
	}
	within(3*time.Second, client.Close)
}

func seqString(seq []nextRec) string {
	s := ""
	for _, r := range seq {
		switch {
		case r.IsEOF:
			s += "E"
		case r.Err != "" && r.HasRes:
			s += "(r+err)"
		case r.Err != "":
			s += "(err:" + r.Err + ")"
		default:
			s += "r"
		}
	}
	return s
}

package props

import (
	"context"
	"fmt"
	"math/rand"
	"net"
	"sync"
	"sync/atomic"
	"time"

	"verif/faultconn"
	"verif/fw"
	"verif/sim"

	"github.com/tsuna/gohbase"
	"github.com/tsuna/gohbase/hrpc"
	"github.com/tsuna/gohbase/region"
)

// C18 — silent servers are detected; idle connections are left alone.
//
// Mostly logical: the instrumented connection records every SetReadDeadline.
// At every quiescent point (all issued calls completed) no deadline may be
// armed; while a request is outstanding the armed deadline must be at least
// its send time + the read timeout. Real-time part: the connection must
// survive idle periods of several timeouts and still serve, and a silent
// server must be detected no earlier than one timeout after the last send.

type c18Step struct {
	Kind  string // single | batch | early | cancelled (batch) | cancelled-single (unbatched calls) | cancelled-in-write | ooo | race-clear | one-of-n | idle | silent
	N     int
	Delay time.Duration
}

type c18Case struct {
	Seed    int64
	Timeout time.Duration
	Queue   int
	Steps   []c18Step
	Full    bool // through the full client instead of a bare region client
}

func (c c18Case) String() string {
	s := ""
	for _, st := range c.Steps {
		s += fmt.Sprintf("%s%d ", st.Kind, st.N)
	}
	return fmt.Sprintf("timeout=%v queue=%d full=%v steps=[%s]", c.Timeout, c.Queue, c.Full, s)
}

func genC18Case(r *rand.Rand, realtime bool) c18Case {
	// the logical cases never wait for the timeout, so it is chosen long: a
	// loaded machine must not be able to make a healthy server look silent
	cs := c18Case{Seed: r.Int63(), Timeout: []time.Duration{time.Second, 2 * time.Second}[r.Intn(2)],
		Queue: []int{1, 2, 100}[r.Intn(3)], Full: r.Intn(3) == 0}
	kinds := []string{"single", "single", "batch", "early", "early", "cancelled", "cancelled-single", "cancelled-in-write", "ooo", "race-clear", "one-of-n"}
	for i, n := 0, 3+r.Intn(8); i < n; i++ {
		cs.Steps = append(cs.Steps, c18Step{Kind: kinds[r.Intn(len(kinds))], N: 1 + r.Intn(5)})
	}
	if realtime {
		cs.Timeout = 200 * time.Millisecond
		at := 1 + r.Intn(len(cs.Steps))
		cs.Steps = append(cs.Steps[:at:at], append([]c18Step{{Kind: "idle", N: 5}}, cs.Steps[at:]...)...)
		if !cs.Full && r.Intn(2) == 0 {
			cs.Steps = append(cs.Steps, c18Step{Kind: "silent", N: 1})
		}
	}
	return cs
}

func runC18Case(c *fw.Ctx, id string, cs c18Case) {
	cl := sim.NewCluster(cs.Seed, 1)
	defer cl.Close()
	regs := cl.CreateTable("t", nil, nil)
	cl.EchoResults = true
	var mu sync.Mutex
	var conns []*faultconn.Conn
	var reads int64
	var forceEarly int32 // next write waits for the response to be read before returning
	var lastWriteReturn atomic.Value
	var silent int32
	var hold atomic.Value     // chan struct{} for ooo/held replies
	var holdSkip atomic.Value // string: op id whose reply is NOT held while hold is set
	holdSkip.Store("")
	var clearHook atomic.Value // func(): runs inside the connection's "clear the read deadline" call
	clearHook.Store(func() {})
	var cancelInWrite atomic.Value // func(): runs inside the next Write of a request, after its bytes went out
	cancelInWrite.Store(func() {})
	cl.OnRequest = func(req *sim.Request) *sim.Reply {
		if atomic.LoadInt32(&silent) == 1 && (req.Single == nil || req.Single.OpID != "") && req.Scan == nil {
			return &sim.Reply{Drop: true}
		}
		if h, _ := hold.Load().(chan struct{}); h != nil && req.Method != "Scan" {
			opid := ""
			if req.Single != nil {
				opid = req.Single.OpID
			}
			if skip, _ := holdSkip.Load().(string); skip != "" && opid == skip {
				return nil
			}
			if req.Multi != nil || opid != "" {
				return &sim.Reply{HoldDefault: h}
			}
		}
		return nil
	}
	wrap := func(addr string, conn net.Conn) net.Conn {
		fc := faultconn.New(conn, nil)
		fc.AfterRead = func(int) { atomic.AddInt64(&reads, 1) }
		fc.BeforeSetReadDeadline = func(t time.Time) {
			if t.IsZero() {
				clearHook.Load().(func())()
			}
		}
		fc.BeforeWriteReturn = func(int) {
			cancelInWrite.Swap(func() {}).(func())()
			if atomic.CompareAndSwapInt32(&forceEarly, 1, 0) {
				// hold the writer inside Write until the response has been read
				// (a server that answers faster than the writer returns)
				r0 := atomic.LoadInt64(&reads)
				for i := 0; i < 200 && atomic.LoadInt64(&reads) == r0; i++ {
					time.Sleep(250 * time.Microsecond)
				}
				time.Sleep(time.Millisecond) // let the reader finish processing it
				c.Count("forced_early_responses", 1)
			}
			lastWriteReturn.Store(time.Now())
		}
		mu.Lock()
		conns = append(conns, fc)
		mu.Unlock()
		return fc
	}
	cl.WrapConn = wrap
	var rc hrpc.RegionClient
	var client gohbase.Client
	reg := mkInfoNamed(regs[0])
	if cs.Full {
		client = newClient(cl, gohbase.RpcQueueSize(cs.Queue), gohbase.FlushInterval(time.Millisecond),
			gohbase.RegionReadTimeout(cs.Timeout), gohbase.RegionLookupTimeout(5*time.Second))
		defer func() { within(3*time.Second, client.Close) }()
	} else {
		rc = region.NewClient("rs0:16020", region.RegionClient, cs.Queue, time.Millisecond, "root", cs.Timeout, nil, cl.Dialer(), quietLogger)
		dctx, dc := context.WithTimeout(context.Background(), 2*time.Second)
		err := rc.Dial(dctx)
		dc()
		if err != nil {
			c.Inconclusive("dial-failed")
			return
		}
		defer rc.Close()
	}
	opn := 0
	var stepOps []string // op ids issued by the current step
	// arrived: every listed operation has been handled by the server (its
	// reply may be held), hence every request write has completed
	arrived := func(ops []string) bool {
		want := map[string]bool{}
		for _, o := range ops {
			want[o] = true
		}
		seen := map[string]bool{}
		cl.Log.Count(func(e *sim.Event) bool {
			if (e.Kind == "exec" || e.Kind == "exec-fault") && want[e.OpID] {
				seen[e.OpID] = true
			}
			return false
		})
		return len(seen) == len(want)
	}
	// awaitArmed waits (within the part of the read timeout that replies may be
	// held for) until all ops have arrived and the last request write is
	// followed by a deadline update; it reports what that update asked for.
	awaitArmed := func(fc *faultconn.Conn, ops []string, holdStart time.Time) (allArrived, armed bool, dl, wt time.Time) {
		for {
			if allArrived = arrived(ops); allArrived {
				var wrote bool
				if armed, dl, wt, wrote = fc.ArmedAfterLastWrite(); armed && wrote {
					return
				}
			}
			if time.Since(holdStart) >= cs.Timeout*4/10 {
				return
			}
			time.Sleep(2 * time.Millisecond)
		}
	}
	var patientCancels []context.CancelFunc
	defer func() {
		for _, f := range patientCancels {
			f()
		}
	}()
	mkCall := func(ctx context.Context, skip bool) hrpc.Call {
		opn++
		if skip && ctx == context.Background() && cs.Seed%2 == 0 {
			// a patient caller: its own deadline lies far beyond the read timeout,
			// which must not stretch the time a silent server goes unnoticed
			var cancel context.CancelFunc
			ctx, cancel = context.WithTimeout(ctx, time.Minute)
			patientCancels = append(patientCancels, cancel)
			c.Count("calls_with_a_deadline_beyond_the_read_timeout", 1)
		}
		opid := fmt.Sprintf("%s%s-%d", sim.OpIDPrefix, id, opn)
		stepOps = append(stepOps, opid)
		row := []byte{byte('a' + opn%26)}
		var opts []func(hrpc.Call) error
		if skip {
			opts = append(opts, hrpc.SkipBatch())
		}
		var call hrpc.Call
		if opn%2 == 0 {
			call, _ = hrpc.NewGet(ctx, []byte("t"), row, append(opts, hrpc.Families(map[string][]string{"echo": {opid}}))...)
		} else {
			call, _ = hrpc.NewPut(ctx, []byte("t"), row, map[string]map[string][]byte{"f": {opid: []byte("v")}}, opts...)
		}
		call.SetRegion(reg)
		return call
	}
	// send issues calls and waits for all of them; returns errors
	send := func(calls []hrpc.Call, batch bool) []error {
		errs := make([]error, len(calls))
		if cs.Full {
			if batch {
				res, _ := client.SendBatch(context.Background(), calls)
				for i := range res {
					errs[i] = res[i].Error
				}
				return errs
			}
			var wg sync.WaitGroup
			for i, call := range calls {
				wg.Add(1)
				go func(i int, call hrpc.Call) {
					defer wg.Done()
					_, errs[i] = client.(gohbase.RPCClient).SendRPC(call)
				}(i, call)
			}
			wg.Wait()
			return errs
		}
		if batch {
			rc.QueueBatch(context.Background(), calls)
		} else {
			for _, call := range calls {
				rc.QueueRPC(call)
			}
		}
		for i, call := range calls {
			select {
			case res := <-call.ResultChan():
				errs[i] = res.Error
			case <-call.Context().Done():
				errs[i] = call.Context().Err()
			case <-time.After(5 * time.Second):
				errs[i] = fmt.Errorf("no result in 5s")
			}
		}
		return errs
	}
	// slow: some step (holds excluded) took a sizeable part of the read timeout to
	// be answered - the harness, not the client, let the server look silent
	slow := false
	quiescent := func(where string) bool {
		// all issued calls have completed; the reader may still be finishing the
		// bookkeeping of the last response (or, for cancelled calls, the server
		// may still be writing responses that will be skipped): wait for the
		// deadline to be cleared, for at most a part of the read timeout
		t0 := time.Now()
		for {
			mu.Lock()
			cc := append([]*faultconn.Conn{}, conns...)
			mu.Unlock()
			clear := true
			for _, fc := range cc {
				if dl := fc.ReadDeadline(); !dl.IsZero() || fc.Closed() {
					clear = false
				}
			}
			if clear || time.Since(t0) >= cs.Timeout*4/10 {
				break
			}
			time.Sleep(time.Millisecond)
		}
		mu.Lock()
		cc := append([]*faultconn.Conn{}, conns...)
		mu.Unlock()
		ok := true
		for i, fc := range cc {
			c.Count("deadline_state_checks", 1)
			if dl := fc.ReadDeadline(); !dl.IsZero() && !fc.Closed() {
				c.Violate(id, "idle:deadline-armed-at-quiescence", fmt.Sprintf("%s: connection %d still has a read deadline armed (%v from now) %v after every call completed: %s",
					where, i, time.Until(dl).Round(time.Millisecond), time.Since(t0).Round(time.Millisecond), cs), cs)
				ok = false
			}
			if fc.Closed() && slow {
				c.Inconclusive("harness-slower-than-read-timeout")
				ok = false
			} else if fc.Closed() {
				c.Violate(id, "idle:connection-torn-down", fmt.Sprintf("%s: connection %d was closed although nothing was outstanding: %s", where, i, cs), cs)
				ok = false
			}
		}
		return ok
	}
	if !cs.Full {
		// connected and idle: nothing may be armed by the connection set-up itself
		if !quiescent("right after Dial") {
			return
		}
	}
	for si, st := range cs.Steps {
		where := fmt.Sprintf("after step %d (%s)", si, st.Kind)
		switch st.Kind {
		case "single", "batch", "early", "cancelled", "cancelled-single", "cancelled-in-write", "ooo":
			var calls []hrpc.Call
			stepOps = nil
			ctx := context.Background()
			var cancel context.CancelFunc
			stepStart := time.Now()
			var heldFor time.Duration
			if st.Kind == "cancelled" || st.Kind == "cancelled-single" || st.Kind == "cancelled-in-write" {
				ctx, cancel = context.WithCancel(ctx)
			}
			n := st.N
			if st.Kind == "cancelled-in-write" {
				// one unbatched call gives up while its request is being written (the
				// bytes are out, Write has not returned yet); the server answers it
				n = 1
				cancelInWrite.Store(func() { cancel(); c.Count("calls_cancelled_inside_write", 1) })
			}
			if st.Kind == "early" {
				n = 1
				atomic.StoreInt32(&forceEarly, 1)
			}
			for i := 0; i < n; i++ {
				calls = append(calls, mkCall(ctx, st.Kind == "early" || st.Kind == "cancelled-single" || st.Kind == "cancelled-in-write" || (st.Kind == "single" && i%2 == 0)))
			}
			var h chan struct{}
			holdStart := time.Now()
			if st.Kind == "cancelled" || st.Kind == "cancelled-single" || st.Kind == "ooo" {
				h = make(chan struct{})
				hold.Store(h)
			}
			done := make(chan []error, 1)
			go func() { done <- send(calls, st.Kind == "batch" || st.Kind == "cancelled") }()
			if h != nil {
				// requests are outstanding and unanswered: the armed deadline must cover
				// them. Judged on the recorded order of operations of the connection -
				// the last request write must be followed by a deadline update - and
				// waited for, never sampled at a guessed moment (the sender may be
				// preempted between the write and the update).
				mu.Lock()
				cc := append([]*faultconn.Conn{}, conns...)
				mu.Unlock()
				for len(cc) == 0 && time.Since(holdStart) < cs.Timeout*4/10 {
					time.Sleep(2 * time.Millisecond)
					mu.Lock()
					cc = append([]*faultconn.Conn{}, conns...)
					mu.Unlock()
				}
				if len(cc) == 0 {
					c.Inconclusive("held-requests-not-settled")
				} else {
					fc := cc[len(cc)-1]
					allArrived, armed, dl, wt := awaitArmed(fc, stepOps, holdStart)
					switch {
					case !allArrived:
						c.Inconclusive("held-requests-not-settled")
					case !armed:
						c.Count("outstanding_deadline_checks", 1)
						c.Violate(id, "silent:no-deadline-while-outstanding", fmt.Sprintf("%s: requests are outstanding and unanswered but %v after they reached the server no read deadline follows the last request write: %s",
							where, time.Since(holdStart).Round(time.Millisecond), cs), cs)
					default:
						c.Count("outstanding_deadline_checks", 1)
						if dl.Before(wt.Add(cs.Timeout - time.Millisecond)) {
							c.Violate(id, "silent:deadline-too-early", fmt.Sprintf("%s: armed deadline is %v after the last send, read timeout is %v: %s", where, dl.Sub(wt), cs.Timeout, cs), cs)
						}
						// ... and not later than the configured read timeout, counted from
						// the moment the client asked for it
						if d, at, ok := fc.LastArm(); ok && d.Sub(at) > cs.Timeout+time.Millisecond {
							c.Violate(id, "silent:deadline-too-late", fmt.Sprintf("%s: the client armed a read deadline %v ahead, the configured read timeout is %v: %s", where, d.Sub(at).Round(time.Millisecond), cs.Timeout, cs), cs)
						}
					}
				}
				if cancel != nil {
					cancel()
				}
				hold.Store((chan struct{})(nil))
				close(h)
				heldFor = time.Since(holdStart)
				if heldFor > cs.Timeout*8/10 {
					// the harness itself kept the server silent for about a read
					// timeout (machine load): whatever the client did is legitimate
					c.Inconclusive("replies-held-too-long")
					return
				}
			}
			var errs []error
			select {
			case errs = <-done:
			case <-time.After(10 * time.Second):
				c.Violate(id, "idle:calls-stuck", where+": calls did not complete in 10s: "+cs.String(), cs)
				return
			}
			if time.Since(stepStart)-heldFor > cs.Timeout*5/10 {
				slow = true
			}
			if st.Kind == "cancelled-in-write" {
				cancel()
				cancelInWrite.Store(func() {})
			}
			for _, e := range errs {
				if st.Kind == "cancelled-in-write" {
					break
				}
				if e != nil && st.Kind != "cancelled" && st.Kind != "cancelled-single" && slow {
					c.Inconclusive("harness-slower-than-read-timeout")
					return
				}
				if e != nil && st.Kind != "cancelled" && st.Kind != "cancelled-single" {
					c.Violate(id, "idle:call-failed", fmt.Sprintf("%s: call failed on a healthy connection: %v: %s", where, e, cs), cs)
					return
				}
			}
			if st.Kind == "cancelled" || st.Kind == "cancelled-single" || st.Kind == "cancelled-in-write" {
				// responses to the cancelled calls are read and skipped: wait until
				// the server has written them and the reader had time to take them
				time.Sleep(10 * time.Millisecond)
				c.Count("responses_for_cancelled_calls", int64(len(calls)))
			}
			c.Count("zero_crossings", 1)
			if !quiescent(where) {
				return
			}
		case "one-of-n":
			// N >= 2 unbatched requests are outstanding, the server answers the
			// first one only: the deadline must stay armed for the others
			n := st.N
			if n < 2 {
				n = 2
			}
			stepOps = nil
			var calls []hrpc.Call
			for i := 0; i < n; i++ {
				calls = append(calls, mkCall(context.Background(), true))
			}
			first := stepOps[0]
			h := make(chan struct{})
			countArms := func() int {
				mu.Lock()
				defer mu.Unlock()
				k := 0
				for _, fc := range conns {
					for _, e := range fc.Events() {
						if e.Kind == faultconn.SetReadDeadline && e.Err == "" && !e.Deadline.IsZero() {
							k++
						}
					}
				}
				return k
			}
			armsBefore := countArms()
			holdStart := time.Now()
			holdSkip.Store(first)
			hold.Store(h)
			done := make(chan []error, 1)
			go func() {
				// the answered call is sent last, so that its response is read when
				// all the others are already outstanding
				done <- send(append(append([]hrpc.Call{}, calls[1:]...), calls[0]), false)
			}()
			mu.Lock()
			cc := append([]*faultconn.Conn{}, conns...)
			mu.Unlock()
			for len(cc) == 0 && time.Since(holdStart) < cs.Timeout*4/10 {
				time.Sleep(2 * time.Millisecond)
				mu.Lock()
				cc = append([]*faultconn.Conn{}, conns...)
				mu.Unlock()
			}
			answered := false
			if len(cc) > 0 {
				fc := cc[len(cc)-1]
				// wait until every request has reached the server and the reply to the
				// first call has been written, then give the reader a moment to process it
				for !answered && time.Since(holdStart) < cs.Timeout*4/10 {
					if arrived(stepOps) {
						var conn int64
						var callID uint32
						found := false
						for _, e := range cl.Log.Snapshot() {
							if e.Kind == "exec" && e.OpID == first {
								conn, callID, found = e.Conn, e.CallID, true
							}
							if found && e.Kind == "reply" && e.Conn == conn && e.CallID == callID && e.Info == "ok" {
								answered = true
							}
						}
					}
					if !answered {
						time.Sleep(2 * time.Millisecond)
					}
				}
				if answered {
					time.Sleep(10 * time.Millisecond)
					c.Count("one_of_n_checks", 1)
					c.Count("outstanding_deadline_checks", 1)
					// "within the read timeout of the last request sent": the deadline is
					// armed once per request sent and never pushed out by a response, so
					// these n requests account for at most n arming calls (decided on the
					// recorded calls, not on the clock)
					if arms := countArms() - armsBefore; !cs.Full && arms > n { // the full client also sends lookups and probes of its own
						c.Violate(id, "silent:deadline-rearmed-by-response", fmt.Sprintf("%s: %d requests were sent and one was answered, but the read deadline was armed %d times: a response moved the deadline of the requests still outstanding: %s", where, n, arms, cs), cs)
					}
					if dl := fc.ReadDeadline(); dl.IsZero() && !fc.Closed() {
						// (not a sampling artefact: once cleared by the processing of the
						// only response, nothing re-arms it - no further request is sent)
						time.Sleep(20 * time.Millisecond)
						if dl = fc.ReadDeadline(); dl.IsZero() {
							c.Violate(id, "silent:no-deadline-while-outstanding", fmt.Sprintf("%s: %d requests are outstanding and unanswered after the server answered one, but no read deadline is armed: %s", where, n-1, cs), cs)
						}
					}
				} else {
					c.Inconclusive("held-requests-not-settled")
				}
			}
			holdSkip.Store("")
			hold.Store((chan struct{})(nil))
			close(h)
			if held := time.Since(holdStart); held > cs.Timeout*8/10 {
				c.Inconclusive("replies-held-too-long")
				return
			}
			select {
			case errs := <-done:
				for _, e := range errs {
					if e != nil {
						c.Violate(id, "idle:call-failed", fmt.Sprintf("%s: call failed on a healthy connection: %v: %s", where, e, cs), cs)
						return
					}
				}
			case <-time.After(10 * time.Second):
				c.Violate(id, "idle:calls-stuck", where+": calls did not complete in 10s: "+cs.String(), cs)
				return
			}
			c.Count("zero_crossings", 1)
			if !quiescent(where) {
				return
			}
		case "race-clear":
			// The connection becomes idle (response to A read, deadline about to
			// be cleared) at the very moment another request B is sent, and B is
			// not answered: once things settle B's deadline must be armed.
			callA := mkCall(context.Background(), true)
			opidA := fmt.Sprintf("%s%s-%d", sim.OpIDPrefix, id, opn)
			callB := mkCall(context.Background(), true)
			opidB := fmt.Sprintf("%s%s-%d", sim.OpIDPrefix, id, opn)
			h := make(chan struct{})
			var hsMu sync.Mutex // guards fired and holdStart (hook runs in the client's goroutine)
			var fired int32
			var holdStart time.Time
			bDone := make(chan []error, 1)
			clearHook.Store(func() {
				// only the clearing call that follows A's response (not one that
				// follows a meta lookup made on A's behalf)
				if cl.Log.Count(func(e *sim.Event) bool { return e.Kind == "exec" && e.OpID == opidA }) == 0 {
					return
				}
				hsMu.Lock()
				if fired != 0 {
					hsMu.Unlock()
					return
				}
				fired = 1
				holdStart = time.Now()
				hsMu.Unlock()
				hold.Store(h)
				go func() { bDone <- send([]hrpc.Call{callB}, false) }()
				time.Sleep(4 * time.Millisecond) // B is written while the clearing call is in progress
			})
			tA := time.Now()
			errsA := send([]hrpc.Call{callA}, false)
			if time.Since(tA) > cs.Timeout*5/10 {
				slow = true
			}
			hsMu.Lock()
			notYet := fired == 0
			hsMu.Unlock()
			if notYet {
				time.Sleep(3 * time.Millisecond)
			}
			hsMu.Lock()
			wasFired := fired == 1
			if !wasFired {
				fired = 2 // too late, the hook stays quiet
			}
			hs := holdStart
			hsMu.Unlock()
			clearHook.Store(func() {})
			if errsA[0] != nil && slow {
				c.Inconclusive("harness-slower-than-read-timeout")
				return
			}
			if errsA[0] != nil {
				c.Violate(id, "idle:call-failed", fmt.Sprintf("%s: call failed on a healthy connection: %v: %s", where, errsA[0], cs), cs)
				return
			}
			if !wasFired {
				c.Count("race_clear_not_reached", 1)
				break
			}
			mu.Lock()
			fc := conns[len(conns)-1]
			mu.Unlock()
			allArrived, armed, dl, wt := awaitArmed(fc, []string{opidB}, hs)
			switch {
			case !allArrived:
				c.Inconclusive("held-requests-not-settled")
			case !armed:
				c.Count("outstanding_deadline_checks", 1)
				c.Count("race_clear_checks", 1)
				c.Violate(id, "silent:no-deadline-while-outstanding", fmt.Sprintf("%s: a request sent while the connection was becoming idle is outstanding and unanswered, but %v after it reached the server no read deadline is armed after its write: %s",
					where, time.Since(hs).Round(time.Millisecond), cs), cs)
			default:
				c.Count("outstanding_deadline_checks", 1)
				c.Count("race_clear_checks", 1)
				if dl.Before(wt.Add(cs.Timeout - time.Millisecond)) {
					c.Violate(id, "silent:deadline-too-early", fmt.Sprintf("%s: armed deadline is %v after the last send, read timeout is %v: %s", where, dl.Sub(wt), cs.Timeout, cs), cs)
				}
			}
			hold.Store((chan struct{})(nil))
			close(h)
			if held := time.Since(hs); held > cs.Timeout*8/10 {
				c.Inconclusive("replies-held-too-long")
				return
			}
			tRel := time.Now()
			select {
			case errs := <-bDone:
				if errs[0] != nil && time.Since(tRel) > cs.Timeout*4/10 {
					c.Inconclusive("harness-slower-than-read-timeout")
					return
				}
				if errs[0] != nil {
					c.Violate(id, "idle:call-failed", fmt.Sprintf("%s: call failed on a healthy connection: %v: %s", where, errs[0], cs), cs)
					return
				}
			case <-time.After(10 * time.Second):
				c.Violate(id, "idle:calls-stuck", where+": calls did not complete in 10s: "+cs.String(), cs)
				return
			}
			c.Count("zero_crossings", 1)
			if !quiescent(where) {
				return
			}
		case "idle":
			time.Sleep(time.Duration(st.N) * cs.Timeout)
			c.Count("idle_periods", 1)
			if !quiescent(where + " (idle for " + (time.Duration(st.N) * cs.Timeout).String() + ")") {
				return
			}
			tReq := time.Now()
			if errs := send([]hrpc.Call{mkCall(context.Background(), true)}, false); errs[0] != nil {
				if time.Since(tReq) > cs.Timeout*5/10 {
					c.Inconclusive("harness-slower-than-read-timeout")
					return
				}
				c.Violate(id, "idle:request-after-idle-failed", fmt.Sprintf("request after an idle period of %d timeouts failed: %v: %s", st.N, errs[0], cs), cs)
				return
			}
			if n := cl.DialCount("rs0:16020"); n != 1 {
				c.Violate(id, "idle:redialled-after-idle", fmt.Sprintf("server was dialled %d times; the idle connection was not kept: %s", n, cs), cs)
				return
			}
			c.Count("idle_survivals", 1)
		case "silent":
			atomic.StoreInt32(&silent, 1)
			call := mkCall(context.Background(), true)
			t0 := time.Now()
			errs := send([]hrpc.Call{call}, false)
			el := time.Since(t0)
			tw, _ := lastWriteReturn.Load().(time.Time)
			c.Count("silent_detections", 1)
			if errs[0] == nil {
				c.Violate(id, "silent:not-detected", "request to a silent server succeeded?: "+cs.String(), cs)
			} else if _, ok := errs[0].(region.ServerError); !ok {
				c.Violate(id, "silent:not-detected", fmt.Sprintf("request to a silent server ended with %T %v after %v, expected the connection-level error: %s", errs[0], errs[0], el, cs), cs)
			} else if time.Since(tw) < cs.Timeout-time.Millisecond {
				c.Violate(id, "silent:failed-too-early", fmt.Sprintf("connection failed %v after the last send, read timeout %v: %s", time.Since(tw), cs.Timeout, cs), cs)
			} else if el > cs.Timeout+2*time.Second {
				c.Violate(id, "silent:detected-late", fmt.Sprintf("silent server detected after %v, read timeout %v: %s", el, cs.Timeout, cs), cs)
			}
			return
		}
	}
}

func init() {
	fw.Register(&fw.Prop{
		ID:    "C18",
		Level: "exploration",
		Rule: "seeded request/response sequences on one connection (bare region client or full client; queue size {1,2,100}; " +
			"read timeout 1-2 s for the logical cases, 200 ms for the real-time ones): steps of unbatched singles, batches, a send whose response is forced to be read before " +
			"the sender returns from Write, calls cancelled while unanswered (their responses are skipped) or inside the connection's Write, one of n held requests answered, responses held and " +
			"released together, a request sent (and left unanswered) while the deadline-clearing call of the previous response is in progress; after every step (a quiescent point) the recorded read deadline must be cleared and the " +
			"connection open; while requests are held the armed deadline must be >= last send + timeout. Real-time cases add " +
			"an idle period of 5 timeouts followed by a request on the same connection, and a silent server. distinct = step " +
			"sequence + configuration; non-trivial = contains an early/cancelled/held step or an idle period",
		Assumptions: []string{"the deadline recorded by the connection wrapper is the one the client asked for (monotonic time.Time comparisons)"},
		Plan: func(tier string) fw.Plan {
			if tier == "thorough" {
				return fw.Plan{Batches: 32, Parallel: 16, Timeout: 30 * time.Minute}
			}
			return fw.Plan{Batches: 8, Parallel: 8, Timeout: 6 * time.Minute}
		},
		Floors: func(tier string) map[string]int64 {
			return map[string]int64{"sequences": 200, "zero_crossings": 1000, "forced_early_responses": 150, "deadline_state_checks": 1000,
				"outstanding_deadline_checks": 150, "idle_survivals": 8, "silent_detections": 3, "race_clear_checks": 50, "one_of_n_checks": 50}
		},
		Run: func(c *fw.Ctx) {
			r := c.Rand("c18")
			n := c.Pick(320, 20000) / c.NBatches
			for i := 0; i < n; i++ {
				cs := genC18Case(r, false)
				id := fmt.Sprintf("s%d-%d", c.Batch, i)
				c.Begin(id, cs.String())
				c.Eval(cs.String(), true)
				c.Count("sequences", 1)
				runC18Case(c, id, cs)
				if i == 0 {
					c.Sample(cs.String())
				}
			}
			// real-time cases run concurrently (they mostly sleep)
			var wg sync.WaitGroup
			for i := 0; i < c.Pick(16, 200)/c.NBatches; i++ {
				cs := genC18Case(r, true)
				id := fmt.Sprintf("rt%d-%d", c.Batch, i)
				c.Eval(cs.String(), true)
				c.Count("sequences", 1)
				wg.Add(1)
				go func() { defer wg.Done(); runC18Case(c, id, cs) }()
				if i%8 == 7 {
					wg.Wait()
				}
			}
			wg.Wait()
		},
	})
}

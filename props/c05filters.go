package props

import (
	"fmt"
	"math/rand"
	"strconv"
	"strings"
	"sync"

	"github.com/tsuna/gohbase/filter"
	"github.com/tsuna/gohbase/pb"
	"google.golang.org/protobuf/proto"
	"google.golang.org/protobuf/reflect/protoreflect"
)

// Filters for C05. A filter tree is built through the public constructors of
// the filter package; its expected description is written down here from the
// constructor arguments and the field names of Filter.proto / Comparator.proto.
// The wire side (canonFilter) knows nothing about the filter package: it maps
// the class name found in the request to a protobuf message, decodes the
// serialized bytes and prints every field that is present, in field order.

const filterClassPath = "org.apache.hadoop.hbase.filter."

var (
	filterKindsMu sync.Mutex
	filterKinds   = map[string]int64{}
)

func countFilterKind(k string) {
	filterKindsMu.Lock()
	filterKinds[k]++
	filterKindsMu.Unlock()
}

// takeFilterKinds returns and resets the kinds generated so far.
func takeFilterKinds() map[string]int64 {
	filterKindsMu.Lock()
	defer filterKindsMu.Unlock()
	out := filterKinds
	filterKinds = map[string]int64{}
	return out
}

func join(parts ...string) string {
	var out []string
	for _, p := range parts {
		if p != "" {
			out = append(out, p)
		}
	}
	return strings.Join(out, ",")
}

func fBytes(name string, b []byte) string {
	if b == nil {
		return ""
	}
	return fmt.Sprintf("%s=%q", name, b)
}

func fList(name string, items []string) string {
	if len(items) == 0 {
		return ""
	}
	return name + "=[" + strings.Join(items, ",") + "]"
}

func optBytes(r *rand.Rand) []byte {
	switch r.Intn(8) {
	case 0:
		return nil
	case 1:
		return []byte{}
	}
	return rbytes(r, 1+r.Intn(4))
}

func someBytes(r *rand.Rand) []byte { // for required fields: never nil
	if r.Intn(8) == 0 {
		return []byte{}
	}
	return rbytes(r, 1+r.Intn(4))
}

func genComparator(r *rand.Rand) (filter.Comparator, string) {
	val := optBytes(r)
	cmpb := "comparable=ByteArrayComparable{" + fBytes("value", val) + "}"
	bac := filter.NewByteArrayComparable(val)
	switch k := r.Intn(7); k {
	case 0:
		countFilterKind("BinaryComparator")
		return filter.NewBinaryComparator(bac), filterClassPath + "BinaryComparator:BinaryComparator{" + cmpb + "}"
	case 1:
		countFilterKind("LongComparator")
		return filter.NewLongComparator(bac), filterClassPath + "LongComparator:LongComparator{" + cmpb + "}"
	case 2:
		countFilterKind("BinaryPrefixComparator")
		return filter.NewBinaryPrefixComparator(bac), filterClassPath + "BinaryPrefixComparator:BinaryPrefixComparator{" + cmpb + "}"
	case 3:
		countFilterKind("BitComparator")
		op := 1 + r.Intn(3)
		return filter.NewBitComparator(filter.BitComparatorBitwiseOp(op), bac),
			fmt.Sprintf("%sBitComparator:BitComparator{%s,bitwise_op=%d}", filterClassPath, cmpb, op)
	case 4:
		countFilterKind("NullComparator")
		return filter.NewNullComparator(), filterClassPath + "NullComparator:NullComparator{}"
	case 5:
		countFilterKind("RegexStringComparator")
		pat, flags := string(rbytes(r, r.Intn(5))), int32(r.Intn(64))
		if r.Intn(4) == 0 {
			flags = -1
		}
		charset, engine := []string{"UTF-8", "ISO-8859-1", ""}[r.Intn(3)], []string{"JAVA", "JONI", ""}[r.Intn(3)]
		return filter.NewRegexStringComparator(pat, flags, charset, engine),
			fmt.Sprintf("%sRegexStringComparator:RegexStringComparator{pattern=%q,pattern_flags=%d,charset=%q,engine=%q}", filterClassPath, pat, flags, charset, engine)
	default:
		countFilterKind("SubstringComparator")
		s := string(rbytes(r, r.Intn(5)))
		return filter.NewSubstringComparator(s), fmt.Sprintf("%sSubstringComparator:SubstringComparator{substr=%q}", filterClassPath, s)
	}
}

func genCompareFilter(r *rand.Rand) (*filter.CompareFilter, string) {
	op := r.Intn(7)
	c, cs := genComparator(r)
	return filter.NewCompareFilter(filter.CompareType(op), c), fmt.Sprintf("CompareFilter{compare_op=%d,comparator=%s}", op, cs)
}

func f32(v float32) string { return strconv.FormatFloat(float64(v), 'g', -1, 32) }

// genFilter returns a filter and the description its wire form must decode to.
func genFilter(r *rand.Rand, depth int) (filter.Filter, string) {
	named := func(class, body string) string { return filterClassPath + class + ":" + class + "{" + body + "}" }
	n := 29
	if depth <= 0 {
		n = 24 // leaves only
	}
	switch k := r.Intn(n); k {
	case 0:
		countFilterKind("ColumnCountGetFilter")
		limit := int32(wide32(r, uint32(r.Intn(100))))
		return filter.NewColumnCountGetFilter(limit), named("ColumnCountGetFilter", fmt.Sprintf("limit=%d", limit))
	case 1:
		countFilterKind("ColumnPaginationFilter")
		limit, offset, co := int32(r.Intn(100)), int32(wide32(r, uint32(r.Intn(100)))), optBytes(r)
		return filter.NewColumnPaginationFilter(limit, offset, co),
			named("ColumnPaginationFilter", join(fmt.Sprintf("limit=%d", limit), fmt.Sprintf("offset=%d", offset), fBytes("column_offset", co)))
	case 2:
		countFilterKind("ColumnPrefixFilter")
		p := someBytes(r)
		return filter.NewColumnPrefixFilter(p), named("ColumnPrefixFilter", fBytes("prefix", p))
	case 3:
		countFilterKind("ColumnRangeFilter")
		lo, hi, li, hiI := optBytes(r), optBytes(r), r.Intn(2) == 0, r.Intn(2) == 0
		return filter.NewColumnRangeFilter(lo, hi, li, hiI),
			named("ColumnRangeFilter", join(fBytes("min_column", lo), fmt.Sprintf("min_column_inclusive=%v", li), fBytes("max_column", hi), fmt.Sprintf("max_column_inclusive=%v", hiI)))
	case 4:
		countFilterKind("CompareFilter")
		cf, s := genCompareFilter(r)
		return cf, filterClassPath + "CompareFilter:" + s
	case 5:
		countFilterKind("DependentColumnFilter")
		cf, s := genCompareFilter(r)
		fam, q, drop := optBytes(r), optBytes(r), r.Intn(2) == 0
		return filter.NewDependentColumnFilter(cf, fam, q, drop),
			named("DependentColumnFilter", join("compare_filter="+s, fBytes("column_family", fam), fBytes("column_qualifier", q), fmt.Sprintf("drop_dependent_column=%v", drop)))
	case 6:
		countFilterKind("FamilyFilter")
		cf, s := genCompareFilter(r)
		return filter.NewFamilyFilter(cf), named("FamilyFilter", "compare_filter="+s)
	case 7:
		countFilterKind("FirstKeyOnlyFilter")
		return filter.NewFirstKeyOnlyFilter(), named("FirstKeyOnlyFilter", "")
	case 8:
		countFilterKind("FirstKeyValueMatchingQualifiersFilter")
		var qs [][]byte
		var items []string
		for i, n := 0, r.Intn(4); i < n; i++ {
			q := someBytes(r)
			qs = append(qs, q)
			items = append(items, fmt.Sprintf("%q", q))
		}
		return filter.NewFirstKeyValueMatchingQualifiersFilter(qs), named("FirstKeyValueMatchingQualifiersFilter", fList("qualifiers", items))
	case 9:
		countFilterKind("FuzzyRowFilter")
		var pairs []*filter.BytesBytesPair
		var items []string
		for i, n := 0, r.Intn(4); i < n; i++ {
			a, b := someBytes(r), someBytes(r)
			pairs = append(pairs, filter.NewBytesBytesPair(a, b))
			items = append(items, fmt.Sprintf("BytesBytesPair{first=%q,second=%q}", a, b))
		}
		return filter.NewFuzzyRowFilter(pairs), named("FuzzyRowFilter", fList("fuzzy_keys_data", items))
	case 10:
		countFilterKind("InclusiveStopFilter")
		p := optBytes(r)
		return filter.NewInclusiveStopFilter(p), named("InclusiveStopFilter", fBytes("stop_row_key", p))
	case 11:
		countFilterKind("KeyOnlyFilter")
		b := r.Intn(2) == 0
		return filter.NewKeyOnlyFilter(b), named("KeyOnlyFilter", fmt.Sprintf("len_as_val=%v", b))
	case 12:
		countFilterKind("MultipleColumnPrefixFilter")
		var ps [][]byte
		var items []string
		for i, n := 0, r.Intn(4); i < n; i++ {
			p := someBytes(r)
			ps = append(ps, p)
			items = append(items, fmt.Sprintf("%q", p))
		}
		return filter.NewMultipleColumnPrefixFilter(ps), named("MultipleColumnPrefixFilter", fList("sorted_prefixes", items))
	case 13:
		countFilterKind("PageFilter")
		n := int64(wide64(r, uint64(r.Intn(1000))))
		return filter.NewPageFilter(n), named("PageFilter", fmt.Sprintf("page_size=%d", n))
	case 14:
		countFilterKind("PrefixFilter")
		p := optBytes(r)
		return filter.NewPrefixFilter(p), named("PrefixFilter", fBytes("prefix", p))
	case 15:
		countFilterKind("QualifierFilter")
		cf, s := genCompareFilter(r)
		return filter.NewQualifierFilter(cf), named("QualifierFilter", "compare_filter="+s)
	case 16:
		countFilterKind("RandomRowFilter")
		ch := []float32{0, 0.25, 0.5, 1, -1, 0.1}[r.Intn(6)]
		return filter.NewRandomRowFilter(ch), named("RandomRowFilter", "chance="+f32(ch))
	case 17:
		countFilterKind("RowFilter")
		cf, s := genCompareFilter(r)
		return filter.NewRowFilter(cf), named("RowFilter", "compare_filter="+s)
	case 18, 19:
		fam, q, op, fim, lvo := optBytes(r), optBytes(r), r.Intn(7), r.Intn(2) == 0, r.Intn(2) == 0
		c, cs := genComparator(r)
		body := "SingleColumnValueFilter{" + join(fBytes("column_family", fam), fBytes("column_qualifier", q), fmt.Sprintf("compare_op=%d", op), "comparator="+cs,
			fmt.Sprintf("filter_if_missing=%v", fim), fmt.Sprintf("latest_version_only=%v", lvo)) + "}"
		scv := filter.NewSingleColumnValueFilter(fam, q, filter.CompareType(op), c, fim, lvo)
		if k == 18 {
			countFilterKind("SingleColumnValueFilter")
			return scv, filterClassPath + "SingleColumnValueFilter:" + body
		}
		countFilterKind("SingleColumnValueExcludeFilter")
		return filter.NewSingleColumnValueExcludeFilter(scv), named("SingleColumnValueExcludeFilter", "single_column_value_filter="+body)
	case 20:
		countFilterKind("TimestampsFilter")
		var ts []int64
		var items []string
		for i, n := 0, r.Intn(4); i < n; i++ {
			t := int64(wide64(r, uint64(r.Intn(1000))))
			ts = append(ts, t)
			items = append(items, fmt.Sprint(t))
		}
		return filter.NewTimestampsFilter(ts), named("TimestampsFilter", fList("timestamps", items))
	case 21:
		countFilterKind("ValueFilter")
		cf, s := genCompareFilter(r)
		return filter.NewValueFilter(cf), named("ValueFilter", "compare_filter="+s)
	case 22:
		countFilterKind("FilterAllFilter")
		a := filter.NewAllFilter()
		return &a, named("FilterAllFilter", "")
	case 23:
		var rrs []*filter.RowRange
		var items []string
		n := r.Intn(4)
		single := r.Intn(3) == 0
		if single {
			n = 1
		}
		for i := 0; i < n; i++ {
			a, b, ai, bi := optBytes(r), optBytes(r), r.Intn(2) == 0, r.Intn(2) == 0
			rrs = append(rrs, filter.NewRowRange(a, b, ai, bi))
			items = append(items, "RowRange{"+join(fBytes("start_row", a), fmt.Sprintf("start_row_inclusive=%v", ai), fBytes("stop_row", b), fmt.Sprintf("stop_row_inclusive=%v", bi))+"}")
		}
		if single {
			countFilterKind("RowRange")
			return rrs[0], filterClassPath + "RowRange:" + items[0]
		}
		countFilterKind("MultiRowRangeFilter")
		return filter.NewMultiRowRangeFilter(rrs), named("MultiRowRangeFilter", fList("row_range_list", items))
	case 24, 25:
		countFilterKind("FilterList")
		op := 1 + r.Intn(2)
		var fs []filter.Filter
		var items []string
		for i, n := 0, r.Intn(4); i < n; i++ {
			f, s := genFilter(r, depth-1)
			fs = append(fs, f)
			items = append(items, s)
		}
		var l *filter.List
		if k == 24 || len(fs) == 0 {
			l = filter.NewList(filter.ListOperator(op), fs...)
		} else { // filters added after construction
			l = filter.NewList(filter.ListOperator(op), fs[0])
			l.AddFilters(fs[1:]...)
		}
		return l, named("FilterList", join(fmt.Sprintf("operator=%d", op), fList("filters", items)))
	case 26:
		countFilterKind("FilterWrapper")
		f, s := genFilter(r, depth-1)
		return filter.NewWrapper(f), named("FilterWrapper", "filter="+s)
	case 27:
		countFilterKind("SkipFilter")
		f, s := genFilter(r, depth-1)
		return filter.NewSkipFilter(f), named("SkipFilter", "filter="+s)
	default:
		countFilterKind("WhileMatchFilter")
		f, s := genFilter(r, depth-1)
		return filter.NewWhileMatchFilter(f), named("WhileMatchFilter", "filter="+s)
	}
}

// --- wire side ---

var filterMessages = map[string]func() proto.Message{
	"ColumnCountGetFilter":                  func() proto.Message { return &pb.ColumnCountGetFilter{} },
	"ColumnPaginationFilter":                func() proto.Message { return &pb.ColumnPaginationFilter{} },
	"ColumnPrefixFilter":                    func() proto.Message { return &pb.ColumnPrefixFilter{} },
	"ColumnRangeFilter":                     func() proto.Message { return &pb.ColumnRangeFilter{} },
	"CompareFilter":                         func() proto.Message { return &pb.CompareFilter{} },
	"DependentColumnFilter":                 func() proto.Message { return &pb.DependentColumnFilter{} },
	"FamilyFilter":                          func() proto.Message { return &pb.FamilyFilter{} },
	"FilterList":                            func() proto.Message { return &pb.FilterList{} },
	"FilterWrapper":                         func() proto.Message { return &pb.FilterWrapper{} },
	"FirstKeyOnlyFilter":                    func() proto.Message { return &pb.FirstKeyOnlyFilter{} },
	"FirstKeyValueMatchingQualifiersFilter": func() proto.Message { return &pb.FirstKeyValueMatchingQualifiersFilter{} },
	"FuzzyRowFilter":                        func() proto.Message { return &pb.FuzzyRowFilter{} },
	"InclusiveStopFilter":                   func() proto.Message { return &pb.InclusiveStopFilter{} },
	"KeyOnlyFilter":                         func() proto.Message { return &pb.KeyOnlyFilter{} },
	"MultipleColumnPrefixFilter":            func() proto.Message { return &pb.MultipleColumnPrefixFilter{} },
	"PageFilter":                            func() proto.Message { return &pb.PageFilter{} },
	"PrefixFilter":                          func() proto.Message { return &pb.PrefixFilter{} },
	"QualifierFilter":                       func() proto.Message { return &pb.QualifierFilter{} },
	"RandomRowFilter":                       func() proto.Message { return &pb.RandomRowFilter{} },
	"RowFilter":                             func() proto.Message { return &pb.RowFilter{} },
	"SingleColumnValueExcludeFilter":        func() proto.Message { return &pb.SingleColumnValueExcludeFilter{} },
	"SingleColumnValueFilter":               func() proto.Message { return &pb.SingleColumnValueFilter{} },
	"SkipFilter":                            func() proto.Message { return &pb.SkipFilter{} },
	"TimestampsFilter":                      func() proto.Message { return &pb.TimestampsFilter{} },
	"ValueFilter":                           func() proto.Message { return &pb.ValueFilter{} },
	"WhileMatchFilter":                      func() proto.Message { return &pb.WhileMatchFilter{} },
	"FilterAllFilter":                       func() proto.Message { return &pb.FilterAllFilter{} },
	"RowRange":                              func() proto.Message { return &pb.RowRange{} },
	"MultiRowRangeFilter":                   func() proto.Message { return &pb.MultiRowRangeFilter{} },
	"BinaryComparator":                      func() proto.Message { return &pb.BinaryComparator{} },
	"LongComparator":                        func() proto.Message { return &pb.LongComparator{} },
	"BinaryPrefixComparator":                func() proto.Message { return &pb.BinaryPrefixComparator{} },
	"BitComparator":                         func() proto.Message { return &pb.BitComparator{} },
	"NullComparator":                        func() proto.Message { return &pb.NullComparator{} },
	"RegexStringComparator":                 func() proto.Message { return &pb.RegexStringComparator{} },
	"SubstringComparator":                   func() proto.Message { return &pb.SubstringComparator{} },
}

// canonNamed decodes a (class name, serialized bytes) pair.
func canonNamed(name string, serialized []byte) string {
	short := strings.TrimPrefix(name, filterClassPath)
	mk, ok := filterMessages[short]
	if !ok || short == name {
		return "unknown-class:" + name
	}
	m := mk()
	if err := proto.Unmarshal(serialized, m); err != nil {
		return "undecodable:" + name + ":" + err.Error()
	}
	return name + ":" + canonMsg(m.ProtoReflect())
}

func canonValue(fd protoreflect.FieldDescriptor, v protoreflect.Value) string {
	switch fd.Kind() {
	case protoreflect.BytesKind:
		return fmt.Sprintf("%q", v.Bytes())
	case protoreflect.StringKind:
		return fmt.Sprintf("%q", v.String())
	case protoreflect.EnumKind:
		return fmt.Sprint(int32(v.Enum()))
	case protoreflect.BoolKind:
		return fmt.Sprint(v.Bool())
	case protoreflect.FloatKind:
		return f32(float32(v.Float()))
	case protoreflect.MessageKind:
		return canonMsg(v.Message())
	default:
		return fmt.Sprint(v.Interface())
	}
}

// canonMsg prints every field that is present, in declaration order; nested
// Filter / Comparator envelopes are opened.
func canonMsg(m protoreflect.Message) string {
	d := m.Descriptor()
	switch string(d.Name()) {
	case "Filter":
		f := m.Interface().(*pb.Filter)
		return canonNamed(f.GetName(), f.SerializedFilter)
	case "Comparator":
		c := m.Interface().(*pb.Comparator)
		return canonNamed(c.GetName(), c.SerializedComparator)
	}
	var parts []string
	fds := d.Fields()
	for i := 0; i < fds.Len(); i++ {
		fd := fds.Get(i)
		if !m.Has(fd) {
			continue
		}
		v := m.Get(fd)
		if fd.IsList() {
			var items []string
			l := v.List()
			for j := 0; j < l.Len(); j++ {
				items = append(items, canonValue(fd, l.Get(j)))
			}
			parts = append(parts, string(fd.Name())+"=["+strings.Join(items, ",")+"]")
			continue
		}
		parts = append(parts, string(fd.Name())+"="+canonValue(fd, v))
	}
	if len(m.GetUnknown()) > 0 {
		parts = append(parts, fmt.Sprintf("unknown-fields=%x", []byte(m.GetUnknown())))
	}
	return string(d.Name()) + "{" + strings.Join(parts, ",") + "}"
}

func canonFilter(f *pb.Filter) string {
	if f == nil {
		return "-"
	}
	return canonNamed(f.GetName(), f.SerializedFilter)
}

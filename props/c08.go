package props

import (
	"bytes"
	"fmt"
	"sort"
	"strings"
	"sync"
	"time"

	"verif/fw"

	"github.com/tsuna/gohbase"
	"github.com/tsuna/gohbase/hrpc"
	"github.com/tsuna/gohbase/region"
)

// C08 — the location cache never holds overlapping regions; the newest wins.
//
// Monitor: the real cache (guarded export of the client's keyRegionCache) is
// driven with put/del histories in lock-step with a brute-force interval model;
// after every operation contents, returned overlaps, `replaced` and dead flags
// are compared and pairwise non-overlap is asserted on the real contents.

type regSpec struct {
	NS, Table   string
	Start, Stop string
	ID          uint64
	Gen         int // distinguishes objects with identical names
}

func (r regSpec) fq() string {
	if r.NS != "" {
		return r.NS + ":" + r.Table
	}
	return r.Table
}

func (r regSpec) name() string {
	return fmt.Sprintf("%s,%s,%d.abcdef.", r.fq(), r.Start, r.ID)
}

func (r regSpec) String() string {
	return fmt.Sprintf("%s[%q,%q)#%d", r.fq(), r.Start, r.Stop, r.ID)
}

func (r regSpec) info() hrpc.RegionInfo {
	var ns []byte
	if r.NS != "" {
		ns = []byte(r.NS)
	}
	return region.NewInfo(r.ID, ns, []byte(r.Table), []byte(r.name()), []byte(r.Start), []byte(r.Stop))
}

func specOverlap(a, b regSpec) bool {
	if a.NS != b.NS || a.Table != b.Table {
		return false
	}
	// [aS,aE) ∩ [bS,bE) ≠ ∅ with empty stop = +inf
	return (b.Stop == "" || a.Start < b.Stop) && (a.Stop == "" || b.Start < a.Stop)
}

type modelEntry struct {
	spec regSpec
	obj  hrpc.RegionInfo
}

type cacheModel struct {
	entries []modelEntry
}

func (m *cacheModel) find(name string) int {
	for i, e := range m.entries {
		if e.spec.name() == name {
			return i
		}
	}
	return -1
}

type c08Op struct {
	Put  bool
	Spec regSpec
	Ref  int // for del: index into inserted objects
}

func (o c08Op) String() string {
	if o.Put {
		return "put " + o.Spec.String()
	}
	return fmt.Sprintf("del #%d", o.Ref)
}

type c08Stats struct {
	unavailable                                                         int64
	evict2, rejected, already, ties, posFirst, posSecond, posElse, dels int64
}

func infoOverlap(a, b hrpc.RegionInfo) bool {
	if !bytes.Equal(a.Namespace(), b.Namespace()) || !bytes.Equal(a.Table(), b.Table()) {
		return false
	}
	return (len(b.StopKey()) == 0 || bytes.Compare(a.StartKey(), b.StopKey()) < 0) &&
		(len(a.StopKey()) == 0 || bytes.Compare(b.StartKey(), a.StopKey()) < 0)
}

// runC08History runs one history; returns a violation description or "".
func runC08History(ops []c08Op, st *c08Stats) (finding, detail string, shape string) {
	defer func() {
		if p := recover(); p != nil {
			finding = "cache:panic"
			detail = fmt.Sprintf("panic: %v after ops %v", p, ops)
		}
	}()
	cache := gohbase.VerifNewCache()
	model := &cacheModel{}
	var inserted []modelEntry // objects ever accepted
	for step, op := range ops {
		if !op.Put {
			if len(inserted) == 0 {
				continue
			}
			e := inserted[op.Ref%len(inserted)]
			idx := model.find(e.spec.name())
			if idx >= 0 && model.entries[idx].obj != e.obj {
				continue // same name, different object cached: outside the judged scope
			}
			cache.Del(e.obj)
			st.dels++
			if idx >= 0 {
				model.entries = append(model.entries[:idx], model.entries[idx+1:]...)
			}
			if e.obj.Context().Err() == nil {
				return "cache:removed-not-dead", fmt.Sprintf("step %d %v: removed region %v not marked dead; ops=%v", step, op, e.spec, ops), ""
			}
		} else {
			obj := op.Spec.info()
			// model decision
			var expOverlaps []modelEntry
			tie := false
			unchanged := false
			if idx := model.find(op.Spec.name()); idx >= 0 {
				unchanged = true
				st.already++
			} else {
				younger := false
				for _, e := range model.entries {
					if specOverlap(e.spec, op.Spec) {
						expOverlaps = append(expOverlaps, e)
						if e.spec.ID > op.Spec.ID {
							younger = true
						} else if e.spec.ID == op.Spec.ID {
							tie = true
						}
					}
				}
				if younger {
					unchanged = true
					st.rejected++
				} else {
				}
			}
			// positional class of the insertion point (for coverage only)
			pos := 0
			for _, e := range model.entries {
				if bytes.Compare([]byte(e.spec.fq()), []byte(op.Spec.fq())) < 0 ||
					(e.spec.fq() == op.Spec.fq() && e.spec.Start <= op.Spec.Start) {
					pos++
				}
			}
			switch pos {
			case 0:
				st.posFirst++
			case 1:
				st.posSecond++
			default:
				st.posElse++
			}
			// the client marks a freshly discovered region unavailable before
			// inserting it, and cached regions are unavailable during every outage:
			// availability must not influence what the cache decides
			if (step+len(ops))%2 == 0 {
				obj.MarkUnavailable()
				st.unavailable++
			}
			before := cache.List()
			overlaps, replaced := cache.Put(obj)
			after := cache.List()
			if tie && !unchanged {
				// equal ids with different names: the statement does not say who
				// wins; only the invariant below is judged. Re-sync the model.
				st.ties++
				model.entries = model.entries[:0]
				for _, r := range after {
					found := false
					for _, e := range inserted {
						if e.obj == r {
							model.entries = append(model.entries, e)
							found = true
						}
					}
					if !found {
						me := modelEntry{op.Spec, obj}
						model.entries = append(model.entries, me)
						inserted = append(inserted, me)
					}
				}
			} else if unchanged {
				if replaced {
					return "cache:replaced-despite-newer-or-same", fmt.Sprintf("step %d %v: replaced=true but model says unchanged; ops=%v", step, op, ops), ""
				}
				if !sameObjs(before, after) {
					return "cache:changed-on-rejected-insert", fmt.Sprintf("step %d %v: cache changed on an insert that must leave it unchanged: before=%v after=%v; ops=%v",
						step, op, before, after, ops), ""
				}
				for _, e := range model.entries {
					if e.obj.Context().Err() != nil {
						return "cache:live-region-marked-dead", fmt.Sprintf("step %d %v: cached region %v marked dead by a rejected insert; ops=%v", step, op, e.spec, ops), ""
					}
				}
			} else {
				if !replaced {
					return "cache:not-replaced", fmt.Sprintf("step %d %v: region newer than all %d overlaps was not inserted; ops=%v", step, op, len(expOverlaps), ops), ""
				}
				if len(expOverlaps) >= 2 {
					st.evict2++
				}
				// returned overlaps as a set
				got := map[hrpc.RegionInfo]bool{}
				for _, o := range overlaps {
					got[o] = true
				}
				if len(got) != len(expOverlaps) {
					return "cache:overlaps-mismatch", fmt.Sprintf("step %d %v: returned %d overlaps %v, model %d; ops=%v", step, op, len(overlaps), overlaps, len(expOverlaps), ops), ""
				}
				for _, e := range expOverlaps {
					if !got[e.obj] {
						return "cache:overlaps-mismatch", fmt.Sprintf("step %d %v: overlap %v missing from returned %v; ops=%v", step, op, e.spec, overlaps, ops), ""
					}
					if e.obj.Context().Err() == nil {
						return "cache:evicted-not-dead", fmt.Sprintf("step %d %v: evicted %v not marked dead; ops=%v", step, op, e.spec, ops), ""
					}
				}
				var keep []modelEntry
				for _, e := range model.entries {
					ev := false
					for _, o := range expOverlaps {
						if o.obj == e.obj {
							ev = true
						}
					}
					if !ev {
						keep = append(keep, e)
					}
				}
				me := modelEntry{op.Spec, obj}
				model.entries = append(keep, me)
				inserted = append(inserted, me)
			}
		}
		// compare contents and invariant
		real := cache.List()
		if len(real) != len(model.entries) {
			return "cache:contents-mismatch", fmt.Sprintf("step %d %v: cache has %d regions %v, model %d %v; ops=%v", step, op, len(real), real, len(model.entries), model.entries, ops), ""
		}
		set := map[hrpc.RegionInfo]bool{}
		for _, r := range real {
			set[r] = true
		}
		for _, e := range model.entries {
			if !set[e.obj] {
				return "cache:contents-mismatch", fmt.Sprintf("step %d %v: model region %v not in cache %v; ops=%v", step, op, e.spec, real, ops), ""
			}
			if e.obj.Context().Err() != nil {
				return "cache:live-region-marked-dead", fmt.Sprintf("step %d %v: cached region %v is marked dead; ops=%v", step, op, e.spec, ops), ""
			}
		}
		for i := range real {
			for j := i + 1; j < len(real); j++ {
				if infoOverlap(real[i], real[j]) {
					return "cache:overlap", fmt.Sprintf("step %d %v: cache holds overlapping %v and %v; ops=%v", step, op, real[i], real[j], ops), ""
				}
			}
		}
	}
	var names []string
	for _, e := range model.entries {
		names = append(names, e.spec.String())
	}
	sort.Strings(names)
	return "", "", strings.Join(names, ";")
}

func sameObjs(a, b []hrpc.RegionInfo) bool {
	if len(a) != len(b) {
		return false
	}
	for i := range a {
		if a[i] != b[i] {
			return false
		}
	}
	return true
}

func c08Universe(points []string, ids []uint64, tables [][2]string) []regSpec {
	var u []regSpec
	for _, t := range tables {
		for i, s := range points {
			// s as start: "" means -inf and must be first point
			for j := range points {
				e := points[j]
				// valid ranges: start < stop, or stop == "" (+inf)
				if e != "" && !(s < e) {
					continue
				}
				if e == "" && j != 0 {
					continue
				}
				_ = i
				for _, id := range ids {
					u = append(u, regSpec{NS: t[0], Table: t[1], Start: s, Stop: e, ID: id})
				}
			}
		}
	}
	return u
}

func init() {
	fw.Register(&fw.Prop{
		ID:    "C08",
		Level: "exploration",
		Rule: "put/del histories on the real location cache in lock-step with a brute-force interval model: " +
			"exhaustive for all histories of length <=3 (thorough: <=4) over regions built from a 3-point key lattice " +
			"(incl. unbounded), 3 ids and 2 tables (one a prefix of the other), then seeded random histories of up to " +
			"30 operations over a 6-point lattice, 3 tables and 4 ids; a history is non-trivial when it contains an " +
			"eviction, a rejected insert or a removal; distinct = distinct operation sequences. Plus rounds of 2..4 mutually " +
			"overlapping regions inserted by concurrent goroutines into one cache (non-overlap and newest-wins at quiescence)",
		Assumptions: []string{
			"regions with equal id but different names (ties) are judged only by the non-overlap invariant",
			"a removal is only issued for the object currently cached under its name or for an already evicted one",
		},
		Plan: func(tier string) fw.Plan {
			if tier == "thorough" {
				return fw.Plan{Batches: 32, Parallel: 16, Timeout: 30 * time.Minute}
			}
			return fw.Plan{Batches: 8, Parallel: 8, Timeout: 5 * time.Minute}
		},
		Floors: func(tier string) map[string]int64 {
			return map[string]int64{"evaluations": 20000, "evictions_of_2_or_more": 100, "rejected_inserts": 100,
				"insert_before_first": 100, "insert_before_second": 100, "insert_elsewhere": 100, "removals": 100, "concurrent_discovery_rounds": 2000}
		},
		Run: runC08,
	})
}

func runC08(c *fw.Ctx) {
	var st c08Stats
	shapes := map[string]struct{}{}
	judge := func(id string, ops []c08Op, sample bool) {
		before := st
		finding, detail, shape := runC08History(ops, &st)
		nontrivial := st.evict2 > before.evict2 || st.rejected > before.rejected || st.dels > before.dels ||
			st.already > before.already
		var sb strings.Builder
		for _, o := range ops {
			sb.WriteString(o.String())
			sb.WriteByte('|')
		}
		c.Eval(sb.String(), nontrivial)
		if finding != "" {
			c.Violate(id, finding, detail, ops)
			return
		}
		shapes[shape] = struct{}{}
		if sample {
			c.Sample(map[string]any{"history": sb.String(), "final_cache": shape})
		}
	}

	// exhaustive small scope
	u := c08Universe([]string{"", "b", "d"}, []uint64{1, 2, 3}, [][2]string{{"", "t"}, {"", "tt"}})
	maxLen := c.Pick(3, 4)
	nOps := len(u) + 2 // + del #0, del #1
	mkOp := func(i int) c08Op {
		if i < len(u) {
			return c08Op{Put: true, Spec: u[i]}
		}
		return c08Op{Ref: i - len(u)}
	}
	c.Begin("exhaustive", map[string]int{"universe": len(u), "maxLen": maxLen})
	var idx int64
	var rec func(prefix []c08Op)
	rec = func(prefix []c08Op) {
		if len(prefix) > 0 {
			idx++
			// partition complete histories over batches by index
			if int(idx%int64(c.NBatches)) == c.Batch {
				judge(fmt.Sprintf("exh-%d", idx), prefix, idx%50000 == 7)
			}
		}
		if len(prefix) == maxLen {
			return
		}
		for i := 0; i < nOps; i++ {
			if i >= len(u) && len(prefix) == 0 {
				continue
			}
			rec(append(prefix, mkOp(i)))
		}
	}
	// thorough length-4 space is 38^4 ≈ 2M histories; quick length-3 ≈ 56k
	rec(nil)
	c.Count("exhaustive_histories_total_space", idx/int64(1)) // same in every batch
	c.SetExhaustive()

	// random histories on a richer lattice
	rng := c.Rand("hist")
	u2 := c08Universe([]string{"", "\x00", "b", "b,", "d", "\xff"}, []uint64{1, 2, 3, 9},
		[][2]string{{"", "t"}, {"", "tt"}, {"ns", "t"}})
	n := c.Pick(5000, 400000) / c.NBatches
	for h := 0; h < n; h++ {
		l := 1 + rng.Intn(30)
		ops := make([]c08Op, l)
		// bias towards one table so that overlaps are frequent
		for i := range ops {
			if rng.Intn(6) == 0 {
				ops[i] = c08Op{Ref: rng.Intn(8)}
			} else {
				s := u2[rng.Intn(len(u2))]
				if rng.Intn(3) != 0 {
					for s.Table != "t" || s.NS != "" {
						s = u2[rng.Intn(len(u2))]
					}
				}
				ops[i] = c08Op{Put: true, Spec: s}
			}
		}
		if h%500 == 0 {
			c.Begin(fmt.Sprintf("rand-%d", h), nil)
		}
		judge(fmt.Sprintf("rand-%d", h), ops, h == 3)
	}
	// concurrent discoveries: G goroutines insert mutually overlapping regions of
	// one table (distinct ids) into one cache at the same moment; whatever the
	// order, the cache must end up without intersecting regions, holding the newest
	{
		crng := c.Rand("concurrent")
		rounds := c.Pick(3000, 60000) / c.NBatches
		var overlapping int64
		for round := 0; round < rounds; round++ {
			cache := gohbase.VerifNewCache()
			g := 2 + crng.Intn(3)
			specs := make([]regSpec, g)
			bounds := []string{"", "b", "d", "f", ""}
			for i := range specs {
				lo := crng.Intn(3)
				hi := lo + 2 + crng.Intn(2)
				if hi > 4 {
					hi = 4
				}
				// every one covers ["d","f") at least: all of them overlap pairwise
				if lo > 2 {
					lo = 2
				}
				if hi < 3 {
					hi = 3
				}
				specs[i] = regSpec{Table: "t", Start: bounds[lo], Stop: bounds[hi], ID: uint64(10 + i)}
			}
			start := make(chan struct{})
			var wg sync.WaitGroup
			for i := range specs {
				obj := specs[i].info()
				wg.Add(1)
				go func() { defer wg.Done(); <-start; cache.Put(obj) }()
			}
			close(start)
			wg.Wait()
			got := cache.List()
			bad := false
			for i := 0; i < len(got) && !bad; i++ {
				for j := i + 1; j < len(got); j++ {
					if infoOverlap(got[i], got[j]) {
						bad = true
						c.Violate(fmt.Sprintf("conc-%d", round), "cache:overlap:concurrent-discoveries",
							fmt.Sprintf("%d regions inserted concurrently %v: the cache holds intersecting %v and %v", g, specs, got[i], got[j]), specs)
						break
					}
				}
			}
			if !bad && (len(got) != 1 || got[0].ID() != uint64(10+g-1)) {
				c.Violate(fmt.Sprintf("conc-%d", round), "cache:newest-did-not-win:concurrent-discoveries",
					fmt.Sprintf("%d mutually overlapping regions inserted concurrently %v: the cache holds %v, expected only the newest (id %d)", g, specs, got, 10+g-1), specs)
			}
			overlapping++
			c.EvalH(fw.Hash64(fmt.Sprintf("conc|%d|%d|%v", c.Batch, round, specs)), true)
		}
		c.Count("concurrent_discovery_rounds", overlapping)
	}
	c.Count("evictions_of_2_or_more", st.evict2)
	c.Count("rejected_inserts", st.rejected)
	c.Count("already_cached_inserts", st.already)
	c.Count("inserts_of_unavailable_regions", st.unavailable)
	c.Count("tie_inserts", st.ties)
	c.Count("insert_before_first", st.posFirst)
	c.Count("insert_before_second", st.posSecond)
	c.Count("insert_elsewhere", st.posElse)
	c.Count("removals", st.dels)
	c.Count("distinct_final_cache_shapes_in_batch", int64(len(shapes)))
}

package props

import (
	"context"
	"fmt"
	"io"
	"testing"
	"time"

	"verif/sim"

	"github.com/tsuna/gohbase"
	"github.com/tsuna/gohbase/hrpc"
)

func TestSmoke(t *testing.T) {
	c := sim.NewCluster(1, 3)
	defer c.Close()
	c.CreateTable("t", [][]byte{[]byte("g"), []byte("p")}, nil)
	c.ScanPolicy = sim.DefaultScanPolicy
	cl := newClient(c, gohbase.RegionLookupTimeout(2*time.Second), gohbase.RegionReadTimeout(2*time.Second))
	defer cl.Close()
	ctx, cancel := context.WithTimeout(context.Background(), 10*time.Second)
	defer cancel()
	for _, k := range []string{"a", "h", "q", "z", "b"} {
		p, _ := hrpc.NewPutStr(ctx, "t", k, map[string]map[string][]byte{"f": {"q1": []byte("v" + k), "q2": []byte("w")}})
		if _, err := cl.Put(p); err != nil {
			t.Fatal(err)
		}
	}
	g, _ := hrpc.NewGetStr(ctx, "t", "h")
	r, err := cl.Get(g)
	if err != nil || len(r.Cells) != 2 {
		t.Fatalf("get: %v %v", r, err)
	}
	inc, _ := hrpc.NewIncStrSingle(ctx, "t", "h", "f", "c", 5)
	v, err := cl.Increment(inc)
	if err != nil || v != 5 {
		t.Fatalf("inc: %v %v", v, err)
	}
	sc, _ := hrpc.NewScanStr(ctx, "t", hrpc.NumberOfRows(2))
	s := cl.Scan(sc)
	n := 0
	for {
		r, err := s.Next()
		if err == io.EOF {
			break
		}
		if err != nil {
			t.Fatal(err)
		}
		n++
		_ = r
	}
	if n != 5 {
		t.Fatalf("scan rows %d", n)
	}
	var batch []hrpc.Call
	for _, k := range []string{"a", "h", "q"} {
		g, _ := hrpc.NewGetStr(ctx, "t", k)
		batch = append(batch, g)
	}
	res, ok := cl.SendBatch(ctx, batch)
	if !ok {
		t.Fatalf("batch: %v", res)
	}
	for _, e := range c.Log.Snapshot() {
		fmt.Printf("%6.1fms %-13s %-10s c%d #%d %-6s %q %q %s %s\n", float64(e.T.Microseconds())/1000, e.Kind, e.Server, e.Conn, e.CallID, e.Method, e.Region, e.Row, e.OpID, e.Info)
	}
}

package props

import (
	"context"
	"encoding/binary"
	"fmt"
	"io"
	"math/rand"
	"net"
	"runtime"
	"runtime/metrics"
	"strings"
	"time"

	"verif/fw"
	"verif/sim"

	"github.com/tsuna/gohbase"
	"github.com/tsuna/gohbase/compression"
	"github.com/tsuna/gohbase/hrpc"
	"github.com/tsuna/gohbase/pb"
	"github.com/tsuna/gohbase/region"
	"google.golang.org/protobuf/proto"
)

// C11 — malformed data from the network cannot crash the client.
//
// Decoder level (this file): the real decoders are called in-process on
// structure-aware mutations of valid inputs; the monitor is recover() (panics,
// including out-of-range reads since every input has cap == len), an
// allocation meter (attacker-chosen counts driving huge allocations) and a
// bounded wait around calls that can block. Connection level: c11conn.go.

var allocSample = []metrics.Sample{{Name: "/gc/heap/allocs:bytes"}}

func allocBytes() uint64 {
	metrics.Read(allocSample)
	return allocSample[0].Value.Uint64()
}

// guarded runs fn and reports a panic and the bytes allocated meanwhile
// (meaningful because each child runs its cases on one goroutine).
func guarded(fn func()) (panicked any, alloc uint64) {
	a0 := allocBytes()
	func() {
		defer func() {
			if p := recover(); p != nil {
				panicked = sitedPanic{p, panicSite()}
			}
		}()
		fn()
	}()
	return panicked, allocBytes() - a0
}

// sitedPanic is a recovered panic with the innermost gohbase function.
// strandedErr: the receive step returned, but this many live calls of the
// multi-request it answered got neither a result nor an error.
type strandedErr int

func (s strandedErr) Error() string {
	return fmt.Sprintf("%d call(s) of the multi-request were left without result or error", int(s))
}

type sitedPanic struct {
	p    any
	site string
}

func (s sitedPanic) String() string { return fmt.Sprintf("%v [in %s]", s.p, s.site) }

// panicSite returns the innermost gohbase function on the panicking stack
// (must be called from the deferred function that recovered).
func panicSite() string {
	pcs := make([]uintptr, 64)
	n := runtime.Callers(2, pcs)
	frames := runtime.CallersFrames(pcs[:n])
	for {
		f, more := frames.Next()
		if strings.HasPrefix(f.Function, "github.com/tsuna/gohbase") {
			return strings.TrimPrefix(f.Function, "github.com/tsuna/gohbase/")
		}
		if !more {
			return "unknown"
		}
	}
}

func exact(b []byte) []byte {
	o := make([]byte, len(b))
	copy(o, b)
	return o
}

var lenBoundary = []uint32{0, 1, 2, 7, 8, 9, 10, 11, 13, 19, 20, 21, 1 << 15, 1<<16 - 4, 1<<16 - 1, 1 << 16, 1<<31 - 5, 1<<31 - 4, 1<<31 - 1, 1 << 31,
	1<<32 - 9, 1<<32 - 8, 1<<32 - 5, 1<<32 - 4, 1<<32 - 3, 1<<32 - 2, 1<<32 - 1}

type c11Input struct {
	Target string // get mutate scan regioninfo decompress multi
	Op     string
	Data   []byte
	Count  int32    // associated cell count (get/mutate)
	Cells  []uint32 // cells_per_result (scan)
	Flags  []bool   // partial flags (scan)
	Extra  any
}

func genCells(r *rand.Rand, k int) []sim.Cell {
	cells := make([]sim.Cell, k)
	for i := range cells {
		cells[i] = sim.Cell{Row: rbytes(r, r.Intn(6)), Family: rbytes(r, r.Intn(3)), Qualifier: rbytes(r, r.Intn(5)),
			TS: r.Uint64(), Type: sim.TypePut, Value: rbytes(r, r.Intn(12))}
	}
	return cells
}

// kvFieldOffsets returns the offsets of the length fields of each cell.
func kvFieldOffsets(cells []sim.Cell) (offs [][5]int) {
	pos := 0
	for _, c := range cells {
		klen := 2 + len(c.Row) + 1 + len(c.Family) + len(c.Qualifier) + 9
		offs = append(offs, [5]int{pos, pos + 4, pos + 8, pos + 12, pos + 14 + len(c.Row)})
		pos += 12 + klen + len(c.Value)
	}
	return
}

func mutateCellblock(r *rand.Rand, cells []sim.Cell) (data []byte, op string) {
	wire := sim.EncodeCells(cells)
	switch x := r.Intn(26); {
	case x >= 20 && x < 23 && len(cells) > 0:
		// two length fields changed consistently, so that the first sanity check
		// (total = 8 + key + value) still holds
		offs := kvFieldOffsets(cells)
		ci := r.Intn(len(cells))
		v := lenBoundary[r.Intn(len(lenBoundary))]
		klen := binary.BigEndian.Uint32(wire[offs[ci][1]:])
		vlen := binary.BigEndian.Uint32(wire[offs[ci][2]:])
		binary.BigEndian.PutUint32(wire[offs[ci][0]:], v)
		if r.Intn(2) == 0 {
			binary.BigEndian.PutUint32(wire[offs[ci][1]:], v-8-vlen)
			return wire, "consistent-total+key"
		}
		binary.BigEndian.PutUint32(wire[offs[ci][2]:], v-8-klen)
		return wire, "consistent-total+value"
	case x >= 23 && x < 25:
		// nothing but a length prefix and a few bytes
		b := make([]byte, 4, 16)
		binary.BigEndian.PutUint32(b, lenBoundary[r.Intn(len(lenBoundary))])
		return append(b, rbytes(r, r.Intn(13))...), "length-prefix-only"
	case x == 25 && len(cells) > 0:
		// a length field changed, then the block cut somewhere
		w2, op := mutateCellblock(r, cells)
		if len(w2) > 0 {
			w2 = w2[:r.Intn(len(w2))]
		}
		return w2, op + "+truncate"
	case x >= 20:
		return wire, "valid"
	case x == 0:
		return wire, "valid"
	case x < 9 && len(cells) > 0: // set a length field
		offs := kvFieldOffsets(cells)
		ci := r.Intn(len(cells))
		f := r.Intn(5)
		names := []string{"kv-total", "key-len", "value-len", "row-len", "family-len"}
		off := offs[ci][f]
		var cur uint32
		switch f {
		case 3:
			cur = uint32(binary.BigEndian.Uint16(wire[off:]))
		case 4:
			cur = uint32(wire[off])
		default:
			cur = binary.BigEndian.Uint32(wire[off:])
		}
		v := lenBoundary[r.Intn(len(lenBoundary))]
		switch r.Intn(4) {
		case 0:
			v = cur - 1
		case 1:
			v = cur + 1
		}
		switch f {
		case 3:
			binary.BigEndian.PutUint16(wire[off:], uint16(v))
		case 4:
			wire[off] = byte(v)
		default:
			binary.BigEndian.PutUint32(wire[off:], v)
		}
		return wire, "set-" + names[f]
	case x < 13:
		if len(wire) == 0 {
			return wire, "valid"
		}
		return wire[:r.Intn(len(wire))], "truncate"
	case x < 16:
		if len(wire) == 0 {
			return wire, "valid"
		}
		wire[r.Intn(len(wire))] ^= 1 << uint(r.Intn(8))
		return wire, "bitflip"
	case x < 18:
		n := r.Intn(40)
		if r.Intn(3) == 0 {
			n = r.Intn(4)
		}
		b := make([]byte, n)
		if r.Intn(2) == 0 {
			r.Read(b)
		}
		return b, "random-or-zero-bytes"
	default:
		if len(wire) < 2 {
			return wire, "valid"
		}
		a, b := r.Intn(len(wire)), r.Intn(len(wire))
		if a > b {
			a, b = b, a
		}
		return append(append([]byte{}, wire[:a]...), wire[b:]...), "splice"
	}
}

func mutateCount(r *rand.Rand, k int) (int32, string) {
	switch r.Intn(10) {
	case 0:
		return int32(k + 1), "count+1"
	case 1:
		return int32(k - 1), "count-1"
	case 2:
		return 0, "count=0"
	case 3:
		return 65536, "count=65536"
	case 4:
		return -1, "count=-1"
	case 5:
		return 1<<31 - 1, "count=maxint32"
	}
	return int32(k), "count-ok"
}

var c11HungSeen int

const allocSlack = 4 << 20

func allocBound(inputLen int) uint64 { return uint64(inputLen)*256 + allocSlack }

// site extracts a short description of a panic for the finding key.
func panicClass(p any) string {
	if sp, ok := p.(sitedPanic); ok {
		return sp.site + ":" + panicClass(sp.p)
	}
	s := fmt.Sprint(p)
	switch {
	case strings.Contains(s, "slice bounds out of range"):
		return "slice-bounds"
	case strings.Contains(s, "index out of range"):
		return "index-range"
	case strings.Contains(s, "nil pointer"):
		return "nil-deref"
	case strings.Contains(s, "makeslice"):
		return "makeslice"
	case strings.Contains(s, "no comma found"):
		return "no-comma"
	case strings.Contains(s, "interface conversion"):
		return "type-assert"
	}
	if len(s) > 40 {
		s = s[:40]
	}
	return s
}

func init() {
	fw.Register(&fw.Prop{
		ID:    "C11",
		Level: "exploration",
		Rule: "structure-aware mutations of valid inputs (set every length/count/index field to boundary values, " +
			"truncate, bit-flip, splice, random bytes) fed to the real decoders: Get/Mutate/Scan cellblock decoders, " +
			"region-info parser (+ insertion of the parsed region into the location cache), block decompressor, " +
			"multi-response decoder and dispatcher; and, over a real connection, hostile response frames fed to the " +
			"connection reader for outstanding get/mutate/scan/multi calls. distinct = distinct (target, mutation " +
			"operator, field, value class, input shape); non-trivial = the input differs from a valid one",
		Assumptions: []string{
			"protobuf messages reach the decoders only through proto.Unmarshal (required fields are therefore present)",
			"allocation bound per call: 256 x input length + 4 MiB",
		},
		Plan: func(tier string) fw.Plan {
			if tier == "thorough" {
				return fw.Plan{Batches: 64, Parallel: 16, Timeout: 30 * time.Minute}
			}
			return fw.Plan{Batches: 16, Parallel: 16, Timeout: 5 * time.Minute}
		},
		Floors: func(tier string) map[string]int64 {
			return map[string]int64{"evaluations": 2000000, "target_get": 20000, "target_mutate": 20000, "target_scan": 20000,
				"target_regioninfo": 20000, "target_decompress": 20000, "target_frame-multi": 5000, "target_frame-get": 2000, "target_frame-scan": 2000, "target_frame-mutate": 2000, "client_level_cases": 1000, "decoder_ok": 1000, "decoder_error": 50000}
		},
		Run: runC11,
	})
}

func runC11(c *fw.Ctx) {
	if c11ConnBatches > 0 && c.Batch < c11ConnBatches {
		runC11Conn(c)
		return
	}
	r := c.Rand("dec")
	n := c.Pick(3200000, 60000000) / max(1, c.NBatches-c11ConnBatches)
	hugeAllocs := 0
	for i := 0; i < n; i++ {
		if i%2000 == 0 {
			c.Begin(fmt.Sprintf("dec-%d", i), nil)
		}
		var target, op, shape string
		var inLen int
		var pnk any
		var alloc uint64
		var decErr error
		var replay any
		switch i % 6 {
		case 0, 1: // get / mutate
			k := r.Intn(5)
			cells := genCells(r, k)
			data, mop := mutateCellblock(r, cells)
			cnt, cop := mutateCount(r, k)
			op = mop + "/" + cop
			shape = fmt.Sprintf("k%d", k)
			inLen = len(data)
			in := exact(data)
			replay = map[string]any{"data": data, "count": cnt}
			if i%6 == 0 {
				target = "get"
				g, _ := hrpc.NewGet(context.Background(), []byte("t"), []byte("r"))
				resp := &pb.GetResponse{Result: &pb.Result{AssociatedCellCount: &cnt}}
				pnk, alloc = guarded(func() { _, decErr = g.DeserializeCellBlocks(resp, in) })
			} else {
				target = "mutate"
				m, _ := hrpc.NewPut(context.Background(), []byte("t"), []byte("r"), nil)
				resp := &pb.MutateResponse{Result: &pb.Result{AssociatedCellCount: &cnt}}
				if r.Intn(20) == 0 {
					resp.Result = nil
				}
				pnk, alloc = guarded(func() { _, decErr = m.DeserializeCellBlocks(resp, in) })
			}
		case 2: // scan
			target = "scan"
			nres := r.Intn(4)
			var per []uint32
			var flags []bool
			total := 0
			for j := 0; j < nres; j++ {
				x := r.Intn(3)
				per = append(per, uint32(x))
				total += x
				flags = append(flags, r.Intn(2) == 0)
			}
			cells := genCells(r, total)
			data, mop := mutateCellblock(r, cells)
			op = mop
			switch r.Intn(8) {
			case 0:
				if len(flags) > 0 {
					flags = flags[:len(flags)-1]
					op += "/flags-1"
				}
			case 1:
				flags = append(flags, true)
				op += "/flags+1"
			case 2:
				flags = nil
				op += "/no-flags"
			case 3:
				if len(per) > 0 {
					per[r.Intn(len(per))] = lenBoundary[r.Intn(len(lenBoundary))]
					op += "/cells-per-result-boundary"
				}
			case 4:
				per = append(per, 1)
				op += "/per+1"
			}
			shape = fmt.Sprintf("res%d", nres)
			inLen = len(data)
			in := exact(data)
			replay = map[string]any{"data": data, "cells_per_result": per, "partial_flags": flags}
			s, _ := hrpc.NewScan(context.Background(), []byte("t"))
			// as it would arrive: through the wire
			raw, _ := proto.Marshal(&pb.ScanResponse{CellsPerResult: per, PartialFlagPerResult: flags})
			resp := &pb.ScanResponse{}
			if err := proto.Unmarshal(raw, resp); err != nil {
				continue
			}
			pnk, alloc = guarded(func() { _, decErr = s.DeserializeCellBlocks(resp, in) })
		case 3: // region info + cache insertion
			target = "regioninfo"
			op, shape, inLen, pnk, alloc, decErr, replay = c11RegionInfo(r)
		case 4: // decompressor
			target = "decompress"
			var data []byte
			data, op = c11Stream(r, hugeAllocs >= 3)
			inLen = len(data)
			in := exact(data)
			replay = map[string]any{"stream": data}
			pnk, alloc = guarded(func() { _, decErr = region.VerifDecompress(c15codec, in) })
		case 5:
			var hung bool
			target, op, shape, inLen, pnk, alloc, decErr, hung, replay = c11Frame(r)
			if hung {
				c.Violate(fmt.Sprintf("dec-%d", i), "reader-blocked:"+target,
					"the connection reader's receive step did not return within 2s (blocked delivering a result): "+op, replay)
			}
			if se, ok := decErr.(strandedErr); ok {
				c.Count("multi_responses_leaving_calls_out", 1)
				c.Violate(fmt.Sprintf("dec-%d", i), "stranded:multi-call-without-result",
					fmt.Sprintf("target=%s op=%s shape=%s: %v", target, op, shape, se), replay)
			}
		}
		c.Eval(target+"|"+op+"|"+shape, !strings.HasPrefix(op, "valid"))
		c.Count("target_"+target, 1)
		switch {
		case pnk != nil:
			c.Count("decoder_panic", 1)
			c.Violate(fmt.Sprintf("dec-%d", i), fmt.Sprintf("panic:%s", panicClass(pnk)),
				fmt.Sprintf("target=%s op=%s shape=%s: panic: %v", target, op, shape, pnk), replay)
		case alloc > allocBound(inLen):
			hugeAllocs++
			c.Count("decoder_huge_alloc", 1)
			c.Violate(fmt.Sprintf("dec-%d", i), fmt.Sprintf("alloc:%s", target),
				fmt.Sprintf("target=%s op=%s: %d bytes allocated for a %d-byte input (bound %d)", target, op, alloc, inLen, allocBound(inLen)), replay)
		case decErr != nil:
			c.Count("decoder_error", 1)
		default:
			c.Count("decoder_ok", 1)
		}
		if i == 11 || i == 14 {
			c.Sample(map[string]any{"target": target, "op": op, "shape": shape, "input": replay})
		}
	}
}

func c11RegionInfo(r *rand.Rand) (op, shape string, inLen int, pnk any, alloc uint64, err error, replay any) {
	ns := []string{"default", "ns", ""}[r.Intn(3)]
	tbl := []string{"t", "tt", "t-1"}[r.Intn(3)]
	ri := &pb.RegionInfo{RegionId: proto.Uint64(uint64(r.Intn(1000))),
		TableName: &pb.TableName{Namespace: []byte(ns), Qualifier: []byte(tbl)},
		StartKey:  rbytes(r, r.Intn(3)), EndKey: rbytes(r, r.Intn(3))}
	if r.Intn(10) == 0 {
		ri.Offline = proto.Bool(true)
	}
	body, _ := proto.Marshal(ri)
	value := append([]byte("PBUF"), body...)
	fq := tbl
	if ns != "default" && ns != "" {
		fq = ns + ":" + tbl
	}
	name := []byte(fmt.Sprintf("%s,%s,%d.abc.", fq, ri.StartKey, ri.GetRegionId()))
	op = "valid"
	switch r.Intn(12) {
	case 0, 1, 2:
		value = value[:r.Intn(len(value)+1)]
		op = fmt.Sprintf("truncate-value-to-%d", min(len(value), 5))
	case 3:
		value[r.Intn(len(value))] ^= 1 << uint(r.Intn(8))
		op = "bitflip-value"
	case 4:
		value = append([]byte("P"), rbytes(r, r.Intn(8))...)
		op = "P+random"
	case 5:
		value = rbytes(r, r.Intn(10))
		op = "random-value"
	case 6:
		// hostile row name (region name) shapes reaching the cache comparator
		// (the last two are shaped like the search keys of the lookups that follow)
		name = [][]byte{[]byte(""), []byte("t"), []byte("t,"), []byte(","), []byte(",,"), []byte("t,,"), []byte("nocomma"),
			[]byte("t,x"), rbytes(r, r.Intn(6)), []byte(tbl + ",k,:"), []byte("t,z,:")}[r.Intn(11)]
		op = fmt.Sprintf("row-name-%q", name)
		if len(op) > 24 {
			op = "row-name-random"
		}
	case 7:
		ri.TableName = &pb.TableName{Namespace: []byte(ns)} // required qualifier missing
		body, _ = proto.MarshalOptions{AllowPartial: true}.Marshal(ri)
		value = append([]byte("PBUF"), body...)
		op = "missing-required-field"
	}
	shape = ns + "/" + tbl
	cells := []*hrpc.Cell{
		{Row: name, Family: []byte("info"), Qualifier: []byte("regioninfo"), Value: exact(value)},
		{Row: name, Family: []byte("info"), Qualifier: []byte("server"), Value: []byte("rs1:16020")},
	}
	switch r.Intn(10) {
	case 0:
		cells = cells[:1]
		op += "/no-server"
	case 1:
		cells = cells[1:]
		op += "/no-regioninfo"
	case 2:
		cells[1].Value = nil
		op += "/empty-server"
	}
	inLen = len(value) + len(name)
	replay = map[string]any{"row": name, "regioninfo_value": value}
	pnk, alloc = guarded(func() {
		var reg hrpc.RegionInfo
		reg, _, err = region.ParseRegionInfo(&hrpc.Result{Cells: cells})
		if err != nil {
			return
		}
		// what the client does next with a parsed region: compare its table
		// with the one asked for, then insert it into the cache and look up
		_ = gohbase.VerifFullyQualifiedTable(reg)
		cache := gohbase.VerifNewCache()
		cache.Put(testRegion)
		cache.Put(reg)
		cache.Lookup([]byte(fq), []byte("k"))
		cache.Put(region.NewInfo(5, nil, []byte("t"), []byte("t,m,5.abc."), []byte("m"), nil))
		cache.Lookup([]byte("t"), []byte("z"))
	})
	return
}

func c11Stream(r *rand.Rand, skipHugeTotals bool) ([]byte, string) {
	p := c15Payload(r, r.Intn(300), r.Intn(2) == 0)
	var blocks []sim.BlockSpec
	rest := len(p)
	for rest > 0 {
		var blk sim.BlockSpec
		for k := 1 + r.Intn(3); k > 0 && rest > 0; k-- {
			n := 1 + r.Intn(rest)
			blk = append(blk, n)
			rest -= n
		}
		blocks = append(blocks, blk)
	}
	w := sim.CompressStream(p, blocks)
	if len(w) == 0 {
		w = []byte{0, 0, 0, 0}
	}
	_, lay, _ := sim.DecompressStream(w)
	switch r.Intn(8) {
	case 0:
		return w, "valid"
	case 1, 2:
		var off int
		name := "total-length"
		if r.Intn(2) == 0 && len(lay.ChunkLenOffs) > 0 {
			off = lay.ChunkLenOffs[r.Intn(len(lay.ChunkLenOffs))]
			name = "chunk-length"
		} else if len(lay.TotalLenOffs) > 0 {
			off = lay.TotalLenOffs[r.Intn(len(lay.TotalLenOffs))]
		}
		v := lenBoundary[r.Intn(len(lenBoundary))]
		if skipHugeTotals && name == "total-length" && v > 1<<24 {
			v = 1 << 16
		}
		binary.BigEndian.PutUint32(w[off:], v)
		return w, "set-" + name
	case 3:
		return w[:r.Intn(len(w))], "truncate"
	case 4, 5:
		off := r.Intn(len(w))
		if skipHugeTotals && lay.Region(off) == "total-length" {
			off = len(w) - 1
		}
		w[off] ^= 1 << uint(r.Intn(8))
		return w, "bitflip-" + lay.Region(off)
	case 6:
		b := rbytes(r, r.Intn(24))
		if skipHugeTotals && len(b) > 0 {
			b[0] = 0
		}
		return b, "random-bytes"
	default:
		a := r.Intn(len(w))
		return append(append([]byte{}, w[:a]...), w...), "splice"
	}
}

// nopConn is the connection handed to VerifReceive (only deadlines are used).
type nopConn struct{}

func (nopConn) Read([]byte) (int, error)         { return 0, io.EOF }
func (nopConn) Write(b []byte) (int, error)      { return len(b), nil }
func (nopConn) Close() error                     { return nil }
func (nopConn) LocalAddr() net.Addr              { return &net.TCPAddr{} }
func (nopConn) RemoteAddr() net.Addr             { return &net.TCPAddr{} }
func (nopConn) SetDeadline(time.Time) error      { return nil }
func (nopConn) SetReadDeadline(time.Time) error  { return nil }
func (nopConn) SetWriteDeadline(time.Time) error { return nil }

// c11Frame feeds one hostile response frame to the connection reader's
// receive step (header parsing, exception mapping, response decoding,
// cellblock slicing/decompression/decoding, multi dispatch) for an
// outstanding get / mutate / scan / multi call.
func c11Frame(r *rand.Rand) (target, op, shape string, inLen int, pnk any, alloc uint64, err error, hung bool, replay any) {
	kind := []string{"get", "mutate", "scan", "multi", "multi", "multi"}[r.Intn(6)]
	target = "frame-" + kind
	compressed := r.Intn(4) == 0
	hdr := &pb.ResponseHeader{CallId: proto.Uint32(1)}
	var msg proto.Message
	var block []byte
	var rpc hrpc.Call
	var vm *region.VerifMulti
	var calls []hrpc.Call
	op = "valid"
	ctx := context.Background()
	switch kind {
	case "get", "mutate":
		k := r.Intn(4)
		block = sim.EncodeCells(genCells(r, k))
		res := &pb.Result{AssociatedCellCount: proto.Int32(int32(k))}
		if kind == "get" {
			rpc, _ = hrpc.NewGet(ctx, []byte("t"), []byte("r"))
			msg = &pb.GetResponse{Result: res}
		} else {
			rpc, _ = hrpc.NewPut(ctx, []byte("t"), []byte("r"), map[string]map[string][]byte{"f": {"q": nil}})
			msg = &pb.MutateResponse{Result: res}
		}
		calls = []hrpc.Call{rpc}
	case "scan":
		rpc, _ = hrpc.NewScan(ctx, []byte("t"))
		nres := r.Intn(4)
		var per []uint32
		var flags []bool
		total := 0
		for j := 0; j < nres; j++ {
			x := r.Intn(3)
			per = append(per, uint32(x))
			flags = append(flags, r.Intn(2) == 0)
			total += x
		}
		block = sim.EncodeCells(genCells(r, total))
		msg = &pb.ScanResponse{CellsPerResult: per, PartialFlagPerResult: flags, ScannerId: proto.Uint64(7),
			MoreResults: proto.Bool(true), MoreResultsInRegion: proto.Bool(true)}
		calls = []hrpc.Call{rpc}
	case "multi":
		var cancelled int
		vm, calls, msg, block, op, cancelled = c11MultiResponse(r)
		shape = fmt.Sprintf("calls%d", len(calls))
		_ = cancelled
	}
	// frame-level mutations (on top of a possibly mutated multi response)
	if op == "valid" {
		switch r.Intn(16) {
		case 0:
			hdr.Exception = &pb.ExceptionResponse{StackTrace: proto.String("at x")}
			msg, block = nil, nil
			op = "exception-without-class"
		case 1:
			hdr.Exception = &pb.ExceptionResponse{ExceptionClassName: proto.String("org.apache.hadoop.hbase.NotServingRegionException")}
			msg, block = nil, nil
			op = "exception-without-stack"
		case 2:
			hdr.Exception = &pb.ExceptionResponse{}
			msg, block = nil, nil
			op = "exception-empty"
		case 3:
			hdr.Exception = &pb.ExceptionResponse{ExceptionClassName: proto.String("java.io.IOException"), StackTrace: proto.String("Cannot append; log is closed")}
			op = "exception-valid"
			msg, block = nil, nil
		case 4:
			hdr.CallId = nil
			op = "no-call-id"
		case 5:
			hdr.CallId = proto.Uint32(2 + uint32(r.Intn(5)))
			op = "unknown-call-id"
		case 6, 7:
			var mb []byte
			mb, op = mutateCellblock(r, genCells(r, 1+r.Intn(3)))
			block = mb
			op = "cellblock-" + op
		}
	}
	wireBlock := block
	if compressed && len(block) > 0 {
		wireBlock = sim.CompressStream(block, []sim.BlockSpec{{len(block)}})
		if r.Intn(6) == 0 && op == "valid" {
			wireBlock[r.Intn(len(wireBlock))] ^= 1 << uint(r.Intn(8))
			op = "compressed-bitflip"
		}
	}
	cbl := uint32(len(wireBlock))
	metaOp := ""
	switch r.Intn(14) {
	case 0:
		cbl = lenBoundary[r.Intn(len(lenBoundary))]
		metaOp = "cellblock-meta-boundary"
	case 1:
		cbl++
		metaOp = "cellblock-meta+1"
	case 2:
		if cbl > 0 {
			cbl--
			metaOp = "cellblock-meta-1"
		}
	case 3:
		cbl = 1 << 20
		metaOp = "cellblock-meta-1MiB"
	}
	if cbl > 0 || metaOp != "" {
		hdr.CellBlockMeta = &pb.CellBlockMeta{Length: proto.Uint32(cbl)}
	}
	if metaOp != "" {
		if op == "valid" {
			op = metaOp
		} else {
			op += "/" + metaOp
		}
	}
	frame := sim.BuildResponseFrame(hdr, msg, wireBlock)
	switch r.Intn(24) {
	case 0:
		frame = frame[:4+r.Intn(len(frame)-3)]
		binary.BigEndian.PutUint32(frame, uint32(len(frame)-4))
		op += "/frame-truncated-consistent"
	case 1:
		frame = frame[:4+r.Intn(len(frame)-3)]
		op += "/frame-short"
	case 2:
		if len(frame) > 5 {
			frame[4+r.Intn(len(frame)-4)] ^= 1 << uint(r.Intn(8))
			op += "/frame-bitflip"
		}
	case 3:
		body := rbytes(r, r.Intn(30))
		frame = sim.RawFrame(body)
		op = "random-frame-body"
	}
	if shape == "" {
		shape = fmt.Sprintf("cells%d", len(block))
	}
	if compressed {
		shape += "/snappy"
	}
	inLen = len(frame)
	replay = map[string]any{"kind": kind, "frame": frame, "compressed": compressed, "op": op}
	var codec compression.Codec
	if compressed {
		codec = c15codec
	}
	in := exact(frame)
	type outcome struct {
		p   any
		err error
	}
	done := make(chan outcome, 1)
	a0 := allocBytes()
	go func() {
		var o outcome
		defer func() {
			if p := recover(); p != nil {
				o.p = sitedPanic{p, panicSite()}
			}
			done <- o
		}()
		if vm != nil {
			o.err = region.VerifReceiveMulti(vm, codec, nopConn{}, in)
		} else {
			o.err = region.VerifReceive(rpc, codec, nopConn{}, in)
		}
	}()
	select {
	case o := <-done:
		pnk, err = o.p, o.err
	case <-time.After(2 * time.Second):
		hung = true
		c11HungSeen++
	}
	alloc = allocBytes() - a0
	// at most one result per call may have been delivered (a second one would
	// have blocked above); collect what arrived
	if err == nil && pnk == nil && !hung {
		stranded := 0
		for _, cl := range calls {
			select {
			case res := <-cl.ResultChan():
				if res.Error != nil {
					err = res.Error
				}
			default:
				if cl.Context().Err() == nil {
					stranded++
				}
			}
		}
		// the response was taken for this multi-request (call id intact, frame
		// not cut): every live call must have got a result or an error, whatever
		// the response left out
		if vm != nil && stranded > 0 && !strings.Contains(op, "call-id") && !strings.Contains(op, "/frame") && op != "random-frame-body" {
			err = strandedErr(stranded)
		}
	}
	return
}

// c11MultiResponse builds a multi request and a (possibly inconsistent) response.
func c11MultiResponse(r *rand.Rand) (vm *region.VerifMulti, calls []hrpc.Call, msg proto.Message, block []byte, op string, cancelled int) {
	nreg := 1 + r.Intn(3)
	regs := make([]hrpc.RegionInfo, nreg)
	for i := range regs {
		regs[i] = region.NewInfo(uint64(i+1), nil, []byte("t"), []byte(fmt.Sprintf("t,%c,%d.abc.", 'a'+i, i+1)),
			[]byte{byte('a' + i)}, []byte{byte('b' + i)})
	}
	ncalls := 1 + r.Intn(5)
	calls = make([]hrpc.Call, ncalls)
	cancelled = -1
	for i := range calls {
		ctx := context.Background()
		if r.Intn(12) == 0 && cancelled < 0 {
			cctx, cancel := context.WithCancel(ctx)
			cancel()
			ctx = cctx
			cancelled = i
		}
		var call hrpc.Call
		if r.Intn(2) == 0 {
			call, _ = hrpc.NewGet(ctx, []byte("t"), []byte{byte('a' + i%nreg)})
		} else {
			call, _ = hrpc.NewPut(ctx, []byte("t"), []byte{byte('a' + i%nreg)}, map[string]map[string][]byte{"f": {"q": []byte("v")}})
		}
		call.SetRegion(regs[i%nreg])
		calls[i] = call
	}
	vm = region.VerifNewMulti(calls)
	req, _, _ := vm.Serialize()
	mreq := req.(*pb.MultiRequest)
	resp := &pb.MultiResponse{}
	withCells := r.Intn(3) != 0
	for _, ra := range mreq.RegionAction {
		rar := &pb.RegionActionResult{}
		for _, a := range ra.Action {
			k := 0
			if withCells {
				k = r.Intn(3)
			}
			block = append(block, sim.EncodeCells(genCells(r, k))...)
			rar.ResultOrException = append(rar.ResultOrException, &pb.ResultOrException{
				Index: proto.Uint32(a.GetIndex()), Result: &pb.Result{AssociatedCellCount: proto.Int32(int32(k))}})
		}
		resp.RegionActionResult = append(resp.RegionActionResult, rar)
	}
	op = "valid"
	pickROE := func() *pb.ResultOrException {
		var all []*pb.ResultOrException
		for _, rar := range resp.RegionActionResult {
			all = append(all, rar.ResultOrException...)
		}
		if len(all) == 0 {
			return nil
		}
		return all[r.Intn(len(all))]
	}
	exc := func() *pb.NameBytesPair {
		return &pb.NameBytesPair{Name: proto.String("org.apache.hadoop.hbase.DoNotRetryIOException"), Value: []byte("boom")}
	}
	if len(resp.RegionActionResult) == 0 {
		return vm, calls, resp, block, op, cancelled
	}
	switch r.Intn(16) {
	case 0:
		if roe := pickROE(); roe != nil {
			roe.Index = proto.Uint32(uint32(ncalls + 1 + r.Intn(3)))
			op = "index-beyond-calls"
		}
	case 1:
		if roe := pickROE(); roe != nil {
			roe.Index = proto.Uint32(lenBoundary[10+r.Intn(5)])
			op = "index-huge"
		}
	case 2:
		if roe := pickROE(); roe != nil {
			if r.Intn(2) == 0 {
				roe.Index = nil
			} else {
				roe.Index = proto.Uint32(0)
			}
			op = "index-absent-or-zero"
		}
	case 3:
		if cancelled >= 0 {
			resp.RegionActionResult[0].ResultOrException = append(resp.RegionActionResult[0].ResultOrException,
				&pb.ResultOrException{Index: proto.Uint32(uint32(cancelled + 1)), Result: &pb.Result{AssociatedCellCount: proto.Int32(0)}})
			op = "index-of-dropped-call"
		}
	case 4:
		if roe := pickROE(); roe != nil && c11HungSeen < 3 {
			d := proto.Clone(roe).(*pb.ResultOrException)
			d.Result = &pb.Result{AssociatedCellCount: proto.Int32(0)}
			resp.RegionActionResult[0].ResultOrException = append(resp.RegionActionResult[0].ResultOrException, d)
			op = "duplicate-index"
		}
	case 5:
		resp.RegionActionResult = append(resp.RegionActionResult, &pb.RegionActionResult{Exception: exc()})
		op = "extra-region-exception"
	case 6:
		if roe := pickROE(); roe != nil {
			roe.Result.AssociatedCellCount = proto.Int32([]int32{-1, 1<<31 - 1, 70000, 9}[r.Intn(4)])
			op = "cell-count-bad"
		}
	case 7:
		if len(block) > 0 {
			block = block[:r.Intn(len(block))]
			op = "truncate-cellblock"
		}
	case 8:
		if roe := pickROE(); roe != nil {
			roe.Exception = exc()
			if r.Intn(2) == 0 {
				roe.Result = nil
				op = "action-exception"
			} else {
				op = "result-and-exception"
			}
		}
	case 9:
		resp.RegionActionResult[0].Exception = exc()
		if r.Intn(2) == 0 {
			resp.RegionActionResult[0].ResultOrException = nil
			op = "region-exception"
		} else {
			op = "region-exception-with-results"
		}
	case 10:
		if roe := pickROE(); roe != nil {
			roe.Result = nil
			op = "no-result-no-exception"
		}
	case 11:
		resp.RegionActionResult = resp.RegionActionResult[:len(resp.RegionActionResult)-1]
		op = "missing-region-result"
	case 13, 14:
		// one action's entry is left out (only entries without cells, so that the
		// cellblock stays consistent with what is listed)
		for _, rar := range resp.RegionActionResult {
			for k, roe := range rar.ResultOrException {
				if roe.GetResult().GetAssociatedCellCount() == 0 {
					rar.ResultOrException = append(rar.ResultOrException[:k:k], rar.ResultOrException[k+1:]...)
					op = "missing-action-result"
					break
				}
			}
			if op == "missing-action-result" {
				break
			}
		}
	case 12:
		if len(resp.RegionActionResult) > 1 && c11HungSeen < 3 {
			// region exception for region 0 and, under region 1, a result for one of region 0's calls
			first := resp.RegionActionResult[0]
			if len(first.ResultOrException) > 0 {
				moved := first.ResultOrException[0]
				first.ResultOrException = nil
				first.Exception = exc()
				resp.RegionActionResult[1].ResultOrException = append(resp.RegionActionResult[1].ResultOrException, moved)
				op = "region-exception-plus-result-elsewhere"
			}
		}
	}
	return vm, calls, resp, block, op, cancelled
}

package props

import (
	"context"
	"fmt"
	"io"
	"strings"
	"sync/atomic"
	"time"

	"verif/fw"
	"verif/sim"

	"github.com/tsuna/gohbase/hrpc"
)

// C06 — a scan returns exactly the rows in range, in order, whole, once.

func runScanToEnd(s hrpc.Scanner, maxResults int) (got []*hrpc.Result, err error) {
	for len(got) <= maxResults {
		r, e := s.Next()
		if e == io.EOF {
			return got, nil
		}
		if e != nil {
			return got, e
		}
		got = append(got, r)
	}
	return got, fmt.Errorf("scanner returned more than %d results without ending", maxResults)
}

func init() {
	fw.Register(&fw.Prop{
		ID:    "C06",
		Level: "exploration",
		Rule: "seeded scan cases: table of 0..40 rows x 1..6 cells over a boundary-biased key alphabet {00,01,a,b,m,fe,ff}, " +
			"1..5 regions whose boundaries coincide with rows or not, range bounds {empty, a boundary, a row, other}, forward " +
			"and reversed (explicit start row), NumberOfRows {default,1,2,3,7}, partial results allowed or not, results as " +
			"cellblocks / in protobuf / compressed; the simulated servers cut every response at random (rows per response, " +
			"row split into partial fragments inside and across responses, heartbeats, region end announced with the last " +
			"row or in a later empty response, early more_results=false only when the scan is really exhausted). Result " +
			"sequence compared with a model computed from the case alone. Small scope, exhaustive in the thorough tier (1/8 sample in " +
			"quick): 3 rows x 2 cells, 3 layouts, 9 range shapes, both directions, partials on/off, every chunk script of length 3 over " +
			"{all, one row, row split in two, trailing fragment, heartbeat, complete row flagged partial, split with an empty fragment, results flagged as heartbeat} x {end announced later} x " +
			"{early more_results=false}. distinct = distinct case description; non-trivial " +
			"= at least one row in range or at least two regions",
		Assumptions: []string{
			"row keys and boundaries never contain eight consecutive 0xff (excluded by the property: the client's documented approximation for reversed scans); up to seven trailing 0xff right below a boundary are played by a dedicated group",
			"simulator scan semantics follow DESIGN.md §7",
		},
		Plan: func(tier string) fw.Plan {
			if tier == "thorough" {
				return fw.Plan{Batches: 32, Parallel: 16, Timeout: 30 * time.Minute}
			}
			return fw.Plan{Batches: 8, Parallel: 8, Timeout: 6 * time.Minute}
		},
		Floors: func(tier string) map[string]int64 {
			return map[string]int64{"scans": 3000, "region_hops": 300, "partial_fragments_sent": 100, "heartbeats": 20,
				"reversed_scans": 100, "rows_returned": 2000, "multi_region_scans": 200, "enumerated_chunkings": 4000}
		},
		Run: runC06,
	})
}

// scriptedPolicy cuts the stream according to a fixed list of shapes, one per
// response (across all region scanners of the scan); afterwards everything
// that is left is sent at once.
func scriptedPolicy(shapes []int, endLater, moreFalse bool) func(*sim.ScanCtx) sim.ScanChunk {
	var n int32
	return func(x *sim.ScanCtx) sim.ScanChunk {
		k := int(atomic.AddInt32(&n, 1)) - 1
		shape := 0
		if k < len(shapes) {
			shape = shapes[k]
		}
		max := x.Remaining
		if x.Limit > 0 && x.Limit < max {
			max = x.Limit
		}
		ch := sim.ScanChunk{EndRegionLater: endLater, MoreResultsFalse: moreFalse}
		one := 1
		if max < 1 {
			one = max
		}
		switch shape {
		case 0:
			ch.Rows = max
		case 1:
			ch.Rows = one
		case 2:
			ch.Rows = one
			if x.NextRowCells > 1 {
				ch.SplitFirst = []int{1, x.NextRowCells - 1}
			}
		case 3:
			if x.AllowPartials && x.NextRowCells > 1 {
				ch.TrailingCells = 1
			} else {
				ch.Rows = one
			}
		case 4:
			if x.Heartbeats < 2 && x.Remaining > 0 && !x.InFragment {
				ch.Heartbeat = true
			} else {
				ch.Rows = one
			}
		case 5:
			ch.Rows = one
			ch.MarkLastPartial = true
		case 6:
			ch.Rows = one
			if x.NextRowCells > 1 {
				ch.SplitFirst = []int{1, x.NextRowCells - 1}
				ch.EmptyFragment = true
			}
		case 7:
			// a response flagged as heartbeat that carries what was collected so far
			ch.HeartbeatFlag = true
			if x.AllowPartials && x.NextRowCells > 1 && !x.InFragment {
				ch.TrailingCells = 1
			} else {
				ch.Rows = one
			}
		}
		return ch
	}
}

// c06Enumerate runs the small-scope exhaustive part: 3 rows x 2 cells, 3
// layouts, all range shapes in both directions, partial results on/off, every
// chunk script of length 3 over 8 shapes x 2 x 2 flags. stride > 1 samples it.
func c06Enumerate(c *fw.Ctx, stride int) {
	rows := []string{"a", "b", "c"}
	layouts := [][]string{nil, {"b"}, {"b", "c"}}
	fwd := [][2]string{{"", ""}, {"a", "c"}, {"b", ""}, {"", "b"}, {"b", "c"}}
	rev := [][2]string{{"c", ""}, {"c", "a"}, {"b", ""}, {"b", "a"}}
	i := 0
	for _, bounds := range layouts {
		for dir := 0; dir < 2; dir++ {
			ranges := fwd
			if dir == 1 {
				ranges = rev
			}
			for _, rg := range ranges {
				for _, partials := range []bool{false, true} {
					for script := 0; script < 512; script++ {
						for flags := 0; flags < 4; flags++ {
							i++
							if (i/stride)%c.NBatches != c.Batch || i%stride != 0 {
								continue
							}
							sc := scanCase{Seed: int64(i), Rows: rows, CellsPer: []int{2, 2, 2}, Bounds: bounds, Start: rg[0], Stop: rg[1],
								Reversed: dir == 1, NumRows: 0, Partials: partials, Servers: 1}
							shapes := []int{script % 8, script / 8 % 8, script / 64}
							id := fmt.Sprintf("enum-%d", i)
							if i%2000 == 0 {
								c.Begin(id, sc)
							}
							cl, client := sc.setup(scriptedPolicy(shapes, flags&1 == 1, flags&2 == 2))
							ctx, cancel := context.WithTimeout(context.Background(), 20*time.Second)
							var got []*hrpc.Result
							var err error
							done := within(30*time.Second, func() {
								got, err = runScanToEnd(client.Scan(sc.newScan(ctx, id)), 40)
							})
							cancel()
							c.Eval(fmt.Sprintf("enum|%v|%v|%v|%v|%v|%d", bounds, rg, dir, partials, shapes, flags), true)
							c.Count("enumerated_chunkings", 1)
							descr := fmt.Sprintf("%s chunk-script=%v end-later=%v more-false=%v", sc.sig(), shapes, flags&1 == 1, flags&2 == 2)
							switch {
							case !done:
								c.Violate(id, "scan:stuck", descr, descr)
							case err != nil:
								c.Violate(id, "scan:error", fmt.Sprintf("%v: %s", err, descr), descr)
							default:
								if f, d := compareScan(got, sc.model(), sc.Partials, false); f != "" {
									c.Violate(id, f, d+" :: "+descr, descr)
								}
							}
							within(5*time.Second, client.Close)
							cl.Close()
						}
					}
				}
			}
		}
	}
}

// c06PaddedStart: a reversed scan that leaves a region continues from "the
// nearest key below the region's start key", which the client approximates by
// decrementing the last byte and appending eight 0xff. The property excludes
// row keys with a run of eight 0xff; rows with up to seven trailing 0xff right
// below a boundary are inside it and must be returned.
func c06PaddedStart(c *fw.Ctx) {
	for _, k := range []int{1, 4, 7} {
		for _, partials := range []bool{false, true} {
			long := "a" + strings.Repeat("\xff", k)
			sc := scanCase{Seed: int64(k), Rows: []string{"a", long, "b", "c"}, CellsPer: []int{1, 2, 1, 1}, Bounds: []string{"b"},
				Start: "c", Reversed: true, Partials: partials, Servers: 1}
			id := fmt.Sprintf("padded-start-%d-%v", k, partials)
			c.Begin(id, sc)
			model := sc.model()
			cl, client := sc.setup(nil)
			ctx, cancel := context.WithTimeout(context.Background(), 30*time.Second)
			var got []*hrpc.Result
			var err error
			done := within(40*time.Second, func() {
				got, err = runScanToEnd(client.Scan(sc.newScan(ctx, id)), 50)
			})
			cancel()
			c.Eval(sc.sig(), true)
			c.Count("reversed_scans_over_rows_with_long_ff_suffix", 1)
			switch {
			case !done:
				c.Violate(id, "scan:stuck", "scan did not finish in 40s on a fault-free cluster: "+sc.sig(), sc)
			case err != nil:
				c.Violate(id, "scan:error", fmt.Sprintf("scan failed on a fault-free cluster: %v: %s", err, sc.sig()), sc)
			default:
				if f, d := compareScan(got, model, sc.Partials, false); f != "" {
					c.Violate(id, f, d+" :: "+sc.sig(), sc)
				}
			}
			within(5*time.Second, client.Close)
			cl.Close()
		}
	}
}

func runC06(c *fw.Ctx) {
	c06Enumerate(c, c.Pick(8, 1))
	if c.Batch == 0 {
		c06PaddedStart(c)
	}
	if !c.Quick() {
		c.SetExhaustive()
	}
	r := c.Rand("scan")
	n := c.Pick(4000, 96000) / c.NBatches
	for i := 0; i < n; i++ {
		sc := genScanCase(r)
		id := fmt.Sprintf("scan-%d", i)
		c.Begin(id, sc)
		model := sc.model()
		cl, client := sc.setup(nil)
		opid := fmt.Sprintf("scan-%d-%d", c.Batch, i)
		// in some scans the response to one continuation request is lost: the server
		// processes the request (the region scanner advances), then the connection
		// dies. The scan may fail, but if it goes on nothing may be missing.
		lostAt, lostFired := 0, int32(0)
		if r.Intn(8) == 0 {
			lostAt = 1 + r.Intn(4)
			var n int32
			cl.OnRequest = func(req *sim.Request) *sim.Reply {
				if req.Scan == nil || req.Scan.ScannerId == nil || req.Scan.GetCloseScanner() || req.Scan.GetRenew() || cl.ScanOpID(req) != opid {
					return nil
				}
				if int(atomic.AddInt32(&n, 1)) == lostAt {
					atomic.StoreInt32(&lostFired, 1)
					return &sim.Reply{DefaultThenKill: true}
				}
				return nil
			}
		}
		ctx, cancel := context.WithTimeout(context.Background(), 30*time.Second)
		var got []*hrpc.Result
		var err error
		done := within(40*time.Second, func() {
			got, err = runScanToEnd(client.Scan(sc.newScan(ctx, opid)), len(sc.Rows)*8+10)
		})
		cancel()
		c.Eval(sc.sig(), len(model) > 0 || len(sc.Bounds) > 0)
		c.Count("scans", 1)
		if sc.Reversed {
			c.Count("reversed_scans", 1)
		}
		if len(sc.Bounds) > 0 {
			c.Count("multi_region_scans", 1)
		}
		switch {
		case !done:
			c.Violate(id, "scan:stuck", "scan did not finish in 40s on a fault-free cluster: "+sc.sig(), sc)
		case err != nil && atomic.LoadInt32(&lostFired) == 1:
			c.Count("scans_failed_after_a_lost_response", 1)
		case err != nil:
			c.Violate(id, "scan:error", fmt.Sprintf("scan failed on a fault-free cluster: %v: %s", err, sc.sig()), sc)
		default:
			if f, d := compareScan(got, model, sc.Partials, false); f != "" {
				if atomic.LoadInt32(&lostFired) == 1 {
					f = "scan:rows-skipped-after-lost-response"
					d = fmt.Sprintf("the response to continuation request %d was lost after the server had processed it; the scan went on without error: %s", lostAt, d)
				}
				c.Violate(id, f, d+" :: "+sc.sig(), sc)
			}
			c.Count("rows_returned", int64(len(model)))
		}
		if atomic.LoadInt32(&lostFired) == 1 {
			c.Count("scans_with_a_lost_response", 1)
		}
		hops := -1
		for _, e := range cl.Log.Snapshot() {
			switch e.Kind {
			case "scanner-open":
				if e.OpID == opid {
					hops++
				}
			case "scan-reply":
				if e.OpID == opid {
					if e.Info == "heartbeat" {
						c.Count("heartbeats", 1)
					} else if j := strings.Index(e.Info, "partials="); j >= 0 {
						var k int64
						fmt.Sscanf(e.Info[j:], "partials=%d", &k)
						c.Count("partial_fragments_sent", k)
					}
				}
			case "misroute", "malformed":
				c.Violate(id, "scan:"+e.Kind, fmt.Sprintf("%s %s", e.Info, sc.sig()), sc)
			}
		}
		if hops > 0 {
			c.Count("region_hops", int64(hops))
		}
		if i == 1 {
			c.Sample(sc)
		}
		within(5*time.Second, client.Close)
		cl.Close()
	}
}

package props

import (
	"bytes"
	"context"
	"fmt"
	"math/rand"
	"sort"
	"strings"
	"time"

	"verif/sim"

	"github.com/tsuna/gohbase"
	"github.com/tsuna/gohbase/hrpc"
	"github.com/tsuna/gohbase/pb"
)

// Shared by C06 and C14: generation of a table, a layout and a scan, and the
// reference model of what the scan must return.

type scanCase struct {
	Seed      int64
	Rows      []string // row keys present
	CellsPer  []int    // cells per row
	Bounds    []string // region boundaries
	Start     string
	Stop      string
	Reversed  bool
	NumRows   uint32 // 0 = default
	Partials  bool
	PBResults bool
	Compress  bool
	Servers   int
	Renew     time.Duration
}

func (s scanCase) sig() string {
	return fmt.Sprintf("rows=%q cells=%v bounds=%q [%q,%q) rev=%v n=%d partial=%v pb=%v snappy=%v", s.Rows, s.CellsPer, s.Bounds,
		s.Start, s.Stop, s.Reversed, s.NumRows, s.Partials, s.PBResults, s.Compress)
}

var scanAlpha = []byte{0x00, 0x01, 'a', 'b', 'm', 0xfe, 0xff}

func scanKey(r *rand.Rand, minLen, maxLen int) string {
	n := minLen + r.Intn(maxLen-minLen+1)
	k := make([]byte, n)
	for i := range k {
		k[i] = scanAlpha[r.Intn(len(scanAlpha))]
	}
	return string(k)
}

func genScanCase(r *rand.Rand) scanCase {
	var sc scanCase
	sc.Seed = r.Int63()
	nrows := r.Intn(41)
	if r.Intn(3) == 0 {
		nrows = r.Intn(6)
	}
	set := map[string]bool{}
	for len(set) < nrows {
		set[scanKey(r, 1, 3)] = true
	}
	for k := range set {
		sc.Rows = append(sc.Rows, k)
	}
	sort.Strings(sc.Rows)
	for range sc.Rows {
		sc.CellsPer = append(sc.CellsPer, 1+r.Intn(6))
	}
	nb := r.Intn(5)
	bset := map[string]bool{}
	for len(bset) < nb {
		var b string
		if len(sc.Rows) > 0 && r.Intn(2) == 0 {
			b = sc.Rows[r.Intn(len(sc.Rows))] // boundary coincides with a row
		} else {
			b = scanKey(r, 1, 3)
		}
		bset[b] = true
	}
	for b := range bset {
		sc.Bounds = append(sc.Bounds, b)
	}
	sort.Strings(sc.Bounds)
	pick := func() string {
		switch r.Intn(5) {
		case 0:
			return ""
		case 1:
			if len(sc.Bounds) > 0 {
				return sc.Bounds[r.Intn(len(sc.Bounds))]
			}
		case 2:
			if len(sc.Rows) > 0 {
				return sc.Rows[r.Intn(len(sc.Rows))]
			}
		}
		return scanKey(r, 1, 3)
	}
	sc.Reversed = r.Intn(3) == 0
	sc.Start, sc.Stop = pick(), pick()
	if sc.Reversed {
		for sc.Start == "" { // the API documents an explicit start row for reversed scans
			sc.Start = pick()
		}
		if sc.Stop != "" && sc.Stop > sc.Start && r.Intn(4) != 0 {
			sc.Start, sc.Stop = sc.Stop, sc.Start
		}
	} else if sc.Stop != "" && sc.Start > sc.Stop && r.Intn(4) != 0 {
		sc.Start, sc.Stop = sc.Stop, sc.Start
	}
	for sc.Start != "" && sc.Start == sc.Stop {
		// start == stop is a Get by HBase convention, not a range: not generated
		sc.Stop = pick()
	}
	sc.NumRows = []uint32{0, 1, 2, 3, 7}[r.Intn(5)]
	sc.Partials = r.Intn(3) == 0
	sc.PBResults = r.Intn(6) == 0
	sc.Compress = r.Intn(5) == 0
	sc.Servers = 1 + r.Intn(3)
	return sc
}

type modelRow struct {
	Row   string
	Cells []sim.Cell
}

// cellsFor builds the cells of a row deterministically.
func cellsFor(row string, n int) []sim.Cell {
	var out []sim.Cell
	for i := 0; i < n; i++ {
		fam := "f"
		if i >= 3 {
			fam = "g"
		}
		out = append(out, sim.Cell{Row: []byte(row), Family: []byte(fam), Qualifier: []byte(fmt.Sprintf("q%d", i)),
			TS: uint64(100 + i), Type: sim.TypePut, Value: []byte(fmt.Sprintf("%x/%d", row, i))})
	}
	return out
}

// model returns what the scan must yield, computed from the case alone.
func (s scanCase) model() []modelRow {
	var out []modelRow
	for i, row := range s.Rows {
		in := false
		if !s.Reversed {
			in = row >= s.Start && (s.Stop == "" || row < s.Stop)
		} else {
			in = row <= s.Start && (s.Stop == "" || row > s.Stop)
		}
		if in {
			out = append(out, modelRow{row, cellsFor(row, s.CellsPer[i])})
		}
	}
	if s.Reversed {
		for i, j := 0, len(out)-1; i < j; i, j = i+1, j-1 {
			out[i], out[j] = out[j], out[i]
		}
	}
	return out
}

// setup creates the cluster, loads data and returns a client.
func (s scanCase) setup(policy func(*sim.ScanCtx) sim.ScanChunk) (*sim.Cluster, gohbase.Client) {
	cl := sim.NewCluster(s.Seed, s.Servers)
	var bounds [][]byte
	for _, b := range s.Bounds {
		bounds = append(bounds, []byte(b))
	}
	cl.CreateTable("t", bounds, nil)
	var cells []sim.Cell
	for i, row := range s.Rows {
		cells = append(cells, cellsFor(row, s.CellsPer[i])...)
	}
	cl.Load("t", cells)
	if policy == nil {
		policy = sim.DefaultScanPolicy
	}
	cl.ScanPolicy = policy
	cl.PBResults = s.PBResults
	cl.ZeroScannerID = s.Seed%5 == 2 // scanner ids are arbitrary: 0 is one
	opts := []gohbase.Option{gohbase.RegionLookupTimeout(5 * time.Second), gohbase.RegionReadTimeout(5 * time.Second)}
	if s.Compress {
		opts = append(opts, gohbase.CompressionCodec("snappy"))
	}
	return cl, newClient(cl, opts...)
}

func (s scanCase) newScan(ctx context.Context, opid string) *hrpc.Scan {
	opts := []func(hrpc.Call) error{hrpc.Attribute("opid", []byte(opid))}
	if s.Reversed {
		opts = append(opts, hrpc.Reversed())
	}
	if s.NumRows > 0 {
		opts = append(opts, hrpc.NumberOfRows(s.NumRows))
	}
	if s.Partials {
		opts = append(opts, hrpc.AllowPartialResults())
	}
	if s.Renew > 0 {
		opts = append(opts, hrpc.RenewInterval(s.Renew))
	}
	if s.Seed%4 == 0 {
		opts = append(opts, hrpc.TrackScanMetrics())
	}
	sc, err := hrpc.NewScanRange(ctx, []byte("t"), []byte(s.Start), []byte(s.Stop), opts...)
	if err != nil {
		panic(err)
	}
	return sc
}

func resultCells(r *hrpc.Result) []sim.Cell {
	var out []sim.Cell
	for _, c := range r.Cells {
		pc := (*pb.Cell)(c)
		out = append(out, sim.Cell{Row: c.Row, Family: c.Family, Qualifier: c.Qualifier, TS: pc.GetTimestamp(), Type: byte(pc.GetCellType()), Value: c.Value})
	}
	return out
}

func cellsEqual(a, b []sim.Cell) bool {
	if len(a) != len(b) {
		return false
	}
	for i := range a {
		if a[i].Key() != b[i].Key() {
			return false
		}
	}
	return true
}

// compareScan compares what Next returned with the model. With partial
// results allowed, fragments are grouped by row first. prefixOK accepts a
// proper prefix of the model (for scans ended early). Returns "" if fine.
func compareScan(got []*hrpc.Result, model []modelRow, partials, prefixOK bool, lastIncompleteOK ...bool) (finding, detail string) {
	incompleteOK := partials
	if len(lastIncompleteOK) > 0 {
		incompleteOK = lastIncompleteOK[0]
	}
	type grow struct {
		row   string
		cells []sim.Cell
	}
	var rows []grow
	for i, r := range got {
		cells := resultCells(r)
		if len(cells) == 0 && partials && r.Partial {
			continue // an empty fragment adds nothing to its row
		}
		if len(cells) == 0 {
			return "scan:empty-result", fmt.Sprintf("result %d has no cells", i)
		}
		row := string(cells[0].Row)
		for _, c := range cells {
			if string(c.Row) != row {
				return "scan:result-mixes-rows", fmt.Sprintf("result %d mixes rows %q and %q", i, row, c.Row)
			}
		}
		if partials && len(rows) > 0 && rows[len(rows)-1].row == row {
			rows[len(rows)-1].cells = append(rows[len(rows)-1].cells, cells...)
			continue
		}
		if !partials && r.Partial && !incompleteOK {
			return "scan:partial-flag-leaked", fmt.Sprintf("result %d (row %q) is flagged partial without AllowPartialResults", i, row)
		}
		rows = append(rows, grow{row, cells})
	}
	for i, g := range rows {
		if i >= len(model) {
			return "scan:extra-row", fmt.Sprintf("row %d %q beyond the %d rows in range", i, g.row, len(model))
		}
		if g.row != model[i].Row {
			f := "scan:wrong-row"
			for _, m := range model {
				if m.Row == g.row {
					f = "scan:wrong-order-or-missing-row"
				}
			}
			for j := 0; j < i; j++ {
				if rows[j].row == g.row {
					f = "scan:duplicate-row"
				}
			}
			return f, fmt.Sprintf("position %d: got row %q, model says %q (got so far %s)", i, g.row, model[i].Row, rowNames(rows[:i+1], func(g grow) string { return g.row }))
		}
		if !cellsEqual(g.cells, model[i].Cells) {
			if prefixOK && incompleteOK && i == len(rows)-1 && len(g.cells) < len(model[i].Cells) && cellsEqual(g.cells, model[i].Cells[:len(g.cells)]) {
				continue
			}
			return "scan:row-cells-differ", fmt.Sprintf("row %q: got %d cells %v, model %d cells", g.row, len(g.cells), head(g.cells), len(model[i].Cells))
		}
	}
	if len(rows) < len(model) && !prefixOK {
		return "scan:missing-rows", fmt.Sprintf("got %d rows, model has %d; first missing %q", len(rows), len(model), model[len(rows)].Row)
	}
	return "", ""
}

func rowNames[T any](l []T, f func(T) string) string {
	var s []string
	for _, x := range l {
		s = append(s, fmt.Sprintf("%q", f(x)))
	}
	return strings.Join(s, ",")
}

var _ = bytes.Equal

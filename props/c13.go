package props

import (
	"context"
	"errors"
	"fmt"
	"io"
	"net"
	"strings"
	"sync"
	"sync/atomic"
	"time"

	"verif/faultconn"
	"verif/fw"
	"verif/sim"

	"github.com/tsuna/gohbase"
	"github.com/tsuna/gohbase/hrpc"
)

// C13 — cancellation is honoured promptly in every state.
//
// The client is driven into a named wait state (confirmed from the simulator /
// connection events before cancelling), every natural exit of which is >= 60 s
// away; then the context is cancelled (or its deadline falls inside the state)
// and the blocked API call must return a context error within 3 s.

type c13Case struct {
	State  string // zk-blocked meta-unanswered probe-unanswered dial-hanging retry-backoff lookup-backoff send-queue-busy server-silent
	Entry  string // get get-unbatched batch batch-ctx-only batch-call-ctx scan scan-continuation
	Expire bool   // deadline expiry instead of cancel
	Seed   int64
}

func (c c13Case) String() string {
	m := "cancel"
	if c.Expire {
		m = "deadline"
	}
	return fmt.Sprintf("state=%s entry=%s mode=%s", c.State, c.Entry, m)
}

// canary measures scheduler stalls.
type canary struct {
	max  int64
	stop chan struct{}
}

func startCanary() *canary {
	c := &canary{stop: make(chan struct{})}
	go func() {
		last := time.Now()
		for {
			select {
			case <-c.stop:
				return
			case <-time.After(5 * time.Millisecond):
			}
			d := time.Since(last) - 5*time.Millisecond
			if int64(d) > atomic.LoadInt64(&c.max) {
				atomic.StoreInt64(&c.max, int64(d))
			}
			last = time.Now()
		}
	}()
	return c
}

func (c *canary) stall() time.Duration { close(c.stop); return time.Duration(atomic.LoadInt64(&c.max)) }

const c13Bound = 3 * time.Second

func runC13Case(c *fw.Ctx, id string, cs c13Case) {
	cl := sim.NewCluster(cs.Seed, 2)
	defer cl.Close()
	cl.CreateTable("t", [][]byte{[]byte("m")}, func(i int) string { return []string{"rs0:16020", "rs1:16020"}[i] })
	cl.EchoResults = true
	cl.Load("t", cellsFor("p1", 2))
	cl.Load("t", cellsFor("q1", 2))
	inState := make(chan struct{}, 1)
	reached := func() {
		select {
		case inState <- struct{}{}:
		default:
		}
	}
	hold := make(chan struct{})
	defer close(hold)
	opid := sim.OpIDPrefix + id
	isUser := func(req *sim.Request) bool {
		if req.Single != nil && req.Single.OpID != "" {
			return true
		}
		for _, ra := range req.Multi {
			for _, a := range ra.Actions {
				if a.OpID != "" {
					return true
				}
			}
		}
		if cs.Entry == "scan-continuation" {
			// the opening request is answered normally; the state applies to the
			// continuation (scanner id set)
			// (a silent or refusing server treats the close request like any other)
			return req.Scan != nil && req.Scan.ScannerId != nil && cl.ScanOpID(req) != ""
		}
		return req.Scan != nil && cl.ScanOpID(req) != ""
	}
	var tooBusy int32
	var writeBlocked int32
	var lastWriteStart atomic.Value
	warm := false // whether the caches are warmed before entering the state
	queue := 100
	if cs.Entry == "get-unbatched" {
		queue = 1
	}
	switch cs.State {
	case "zk-blocked":
		cl.ZKBlock = make(chan struct{})
		defer close(cl.ZKBlock)
	case "meta-unanswered":
		cl.OnRequest = func(req *sim.Request) *sim.Reply {
			if req.Scan != nil && string(req.Scan.GetRegion().GetValue()) == string(sim.MetaRegionName) {
				reached()
				return &sim.Reply{HoldDefault: hold}
			}
			return nil
		}
	case "probe-unanswered":
		cl.OnRequest = func(req *sim.Request) *sim.Reply {
			if req.Single != nil && req.Single.Kind() == "exists" && string(req.Single.Region) != string(sim.MetaRegionName) && req.Server == "rs1:16020" {
				reached()
				return &sim.Reply{HoldDefault: hold}
			}
			return nil
		}
	case "dial-hanging":
		cl.DialDelay = func(addr string, n int) time.Duration {
			if addr == "rs1:16020" {
				reached()
				return 120 * time.Second
			}
			return 0
		}
	case "retry-backoff":
		warm = true
		cl.OnAction = func(req *sim.Request, a *sim.Action) *sim.Exc {
			if a.OpID != "" && req.Server == "rs1:16020" {
				if atomic.AddInt32(&tooBusy, 1) == 9 { // the 9th refusal is followed by a 4.096 s sleep
					time.AfterFunc(300*time.Millisecond, reached)
				}
				return &sim.Exc{Class: sim.ExcTooBusy}
			}
			return nil
		}
		cl.OnRequest = func(req *sim.Request) *sim.Reply {
			if isUser(req) && req.Scan != nil && string(req.Scan.GetRegion().GetValue()) != string(sim.MetaRegionName) {
				if atomic.AddInt32(&tooBusy, 1) == 9 {
					time.AfterFunc(300*time.Millisecond, reached)
				}
				return &sim.Reply{Exc: &sim.Exc{Class: sim.ExcTooBusy}}
			}
			return nil
		}
	case "lookup-backoff":
		var n int32
		cl.OnRequest = func(req *sim.Request) *sim.Reply {
			if req.Scan != nil && string(req.Scan.GetRegion().GetValue()) == string(sim.MetaRegionName) {
				if atomic.AddInt32(&n, 1) == 9 {
					time.AfterFunc(300*time.Millisecond, reached)
				}
				return &sim.Reply{Exc: &sim.Exc{Class: sim.ExcDoNotRetry, Stack: "meta unavailable"}}
			}
			return nil
		}
	case "send-queue-busy":
		warm = true
	case "server-silent":
		warm = true
		cl.OnRequest = func(req *sim.Request) *sim.Reply {
			if isUser(req) && req.Server == "rs1:16020" {
				reached()
				return &sim.Reply{Drop: true}
			}
			return nil
		}
	}
	cl.WrapConn = func(addr string, conn net.Conn) net.Conn {
		fc := faultconn.New(conn, nil)
		if addr == "rs1:16020" {
			fc.OnWrite = func(b []byte) { lastWriteStart.Store(time.Now()); atomic.StoreInt32(&writeBlocked, 1) }
			fc.BeforeWriteReturn = func(int) { atomic.StoreInt32(&writeBlocked, 0) }
		}
		return fc
	}
	client := newClient(cl, gohbase.RpcQueueSize(queue), gohbase.FlushInterval(time.Millisecond),
		gohbase.RegionLookupTimeout(120*time.Second), gohbase.RegionReadTimeout(120*time.Second))
	defer func() { go client.Close() }()
	if warm {
		wctx, wc := context.WithTimeout(context.Background(), 10*time.Second)
		for _, k := range []string{"a1", "p1"} {
			g, _ := hrpc.NewGetStr(wctx, "t", k)
			if _, err := client.Get(g); err != nil {
				wc()
				c.Inconclusive("warm-up-failed")
				return
			}
		}
		wc()
	}
	var stallCh chan struct{}
	if cs.State == "send-queue-busy" {
		// the server on rs1 stops reading; fill the socket until a Write blocks
		stallCh = make(chan struct{})
		cl.Server("rs1:16020").SetStall(stallCh)
		defer close(stallCh)
		fillCtx, fillCancel := context.WithCancel(context.Background())
		defer fillCancel()
		big := make([]byte, 1<<20)
		go func() {
			for i := 0; i < 64 && fillCtx.Err() == nil; i++ {
				p, _ := hrpc.NewPutStr(fillCtx, "t", "p1", map[string]map[string][]byte{"f": {fmt.Sprintf("fill%d", i): big}})
				go client.Put(p)
				time.Sleep(10 * time.Millisecond)
			}
		}()
		// blocked = a Write on rs1 has been in progress for 300 ms
		ok := false
		for i := 0; i < 400; i++ {
			time.Sleep(10 * time.Millisecond)
			if t, _ := lastWriteStart.Load().(time.Time); atomic.LoadInt32(&writeBlocked) == 1 && !t.IsZero() && time.Since(t) > 300*time.Millisecond {
				ok = true
				break
			}
		}
		if !ok {
			c.Inconclusive("send-queue-never-blocked")
			return
		}
	}
	// the call under test
	base := context.Background()
	var ctx context.Context
	var cancel context.CancelFunc
	if cs.Expire {
		// the deadline is placed after the point where the state is reached
		d := 700 * time.Millisecond
		if cs.State == "retry-backoff" || cs.State == "lookup-backoff" {
			d = 5500 * time.Millisecond
		}
		ctx, cancel = context.WithTimeout(base, d)
	} else {
		ctx, cancel = context.WithCancel(base)
	}
	defer cancel()
	type result struct {
		err  error
		errs []error
		t    time.Time
	}
	done := make(chan result, 1)
	key := "p1" // region on rs1
	callCtx, callCancel := ctx, cancel
	batchCtx := ctx
	if cs.Entry == "batch-call-ctx" {
		// the batch context stays live; only the context of the call that waits is cancelled
		batchCtx = base
	}
	go func() {
		var r result
		switch cs.Entry {
		case "get", "get-unbatched":
			g, _ := hrpc.NewGetStr(callCtx, "t", key, hrpc.Families(map[string][]string{"echo": {opid}}))
			_, r.err = client.Get(g)
		case "batch", "batch-call-ctx", "batch-ctx-only":
			other := base
			if cs.Entry == "batch" {
				other = ctx
			}
			g2ctx := callCtx
			if cs.Entry == "batch-ctx-only" {
				// the calls carry no deadline of their own: only the context given to
				// SendBatch ends
				g2ctx = base
			}
			g1, _ := hrpc.NewGetStr(other, "t", "a1", hrpc.Families(map[string][]string{"echo": {opid + "-a"}}))
			g2, _ := hrpc.NewGetStr(g2ctx, "t", key, hrpc.Families(map[string][]string{"echo": {opid}}))
			calls := []hrpc.Call{g1, g2}
			if cs.Entry == "batch-call-ctx" && (cs.State == "zk-blocked" || cs.State == "meta-unanswered" || cs.State == "lookup-backoff") {
				// in these states a bystander call with a live context cannot
				// complete either, so the batch consists of the one call
				calls = []hrpc.Call{g2}
			}
			res, _ := client.SendBatch(batchCtx, calls)
			for _, x := range res {
				r.errs = append(r.errs, x.Error)
			}
			r.err = res[len(res)-1].Error
		case "scan", "scan-continuation":
			s, _ := hrpc.NewScanRangeStr(callCtx, "t", "n", "", hrpc.Attribute("opid", []byte(opid)), hrpc.NumberOfRows(1))
			sc := client.Scan(s)
			for {
				_, err := sc.Next()
				if err != nil {
					if err != io.EOF {
						r.err = err
					}
					break
				}
			}
		}
		r.t = time.Now()
		done <- r
	}()
	// confirm the state
	switch cs.State {
	case "zk-blocked":
		ok := false
		for i := 0; i < 300 && !ok; i++ {
			time.Sleep(10 * time.Millisecond)
			ok = cl.Log.Count(func(e *sim.Event) bool { return e.Kind == "zk" }) > 0
		}
		if !ok {
			c.Inconclusive("state-not-reached:" + cs.State)
			return
		}
		time.Sleep(30 * time.Millisecond)
	case "send-queue-busy":
		time.Sleep(200 * time.Millisecond) // the call under test is now queued behind the blocked writer
	default:
		select {
		case <-inState:
			time.Sleep(30 * time.Millisecond)
		case r := <-done:
			c.Inconclusive("call-returned-before-state:" + cs.State)
			_ = r
			return
		case <-time.After(20 * time.Second):
			c.Inconclusive("state-not-reached:" + cs.State)
			return
		}
	}
	can := startCanary()
	var tCancel time.Time
	if cs.Expire {
		dl, _ := ctx.Deadline()
		tCancel = dl
		if time.Now().After(dl) {
			c.Inconclusive("deadline-passed-before-state")
			can.stall()
			return
		}
	} else {
		tCancel = time.Now()
		callCancel()
	}
	c.Count("states_reached", 1)
	c.Count("state_"+cs.State, 1)
	var r result
	returned := true
	select {
	case r = <-done:
	case <-time.After(time.Until(tCancel) + c13Bound + 2*time.Second):
		returned = false
	}
	stall := can.stall()
	if stall > 500*time.Millisecond {
		c.Inconclusive("scheduler-stall")
		return
	}
	lat := r.t.Sub(tCancel)
	switch {
	case !returned || lat > c13Bound:
		f := "cancel:not-honoured:" + cs.State + ":" + cs.Entry
		c.Violate(id, f, fmt.Sprintf("the blocked call had not returned %v after its context ended (returned later: %v): %s", c13Bound, returned, cs), cs)
	case r.err == nil:
		c.Violate(id, "cancel:no-error", fmt.Sprintf("call returned success after cancellation in %s: %s", cs.State, cs), cs)
	case !errors.Is(r.err, context.Canceled) && !errors.Is(r.err, context.DeadlineExceeded) && !strings.HasPrefix(cs.Entry, "batch"):
		// (for a batch the statement only asks that the call is marked failed)
		c.Violate(id, "cancel:wrong-error", fmt.Sprintf("call returned %T %v instead of the context error: %s", r.err, r.err, cs), cs)
	default:
		c.Count("cancellations_honoured", 1)
		c.Max("max_cancel_latency_ms", lat.Milliseconds())
	}
}

func init() {
	fw.Register(&fw.Prop{
		ID:    "C13",
		Level: "exploration",
		Rule: "every wait state {ZooKeeper lookup blocked, meta lookup unanswered, region probe unanswered, dial hanging, retry " +
			"back-off sleep of 4.096 s, lookup back-off of 4.096 s, send queue busy (server stopped reading, socket full), " +
			"request written and server silent} x entry point {single call, single unbatched call, batch with shared context, " +
			"batch whose waiting call has its own context, scanner Next} x {cancel, deadline expiry}; the state is confirmed from " +
			"simulator/connection events before the context ends, all natural exits are 120 s away, the call must return the " +
			"context error within 3 s (scheduler-stall canary guards the bound). distinct = state x entry x mode; all non-trivial",
		Assumptions: []string{"3 s bound vs 120 s natural exits; a canary stall above 500 ms makes a case inconclusive"},
		Plan: func(tier string) fw.Plan {
			if tier == "thorough" {
				return fw.Plan{Batches: 16, Parallel: 16, Timeout: 40 * time.Minute}
			}
			return fw.Plan{Batches: 16, Parallel: 16, Timeout: 8 * time.Minute}
		},
		Floors: func(tier string) map[string]int64 {
			return map[string]int64{"states_reached": 50, "state_zk-blocked": 4, "state_meta-unanswered": 4, "state_probe-unanswered": 4, "state_dial-hanging": 4,
				"state_retry-backoff": 4, "state_lookup-backoff": 4, "state_send-queue-busy": 2, "state_server-silent": 4, "cancellations_honoured": 40}
		},
		Run: func(c *fw.Ctx) {
			states := []string{"zk-blocked", "meta-unanswered", "probe-unanswered", "dial-hanging", "retry-backoff", "lookup-backoff", "send-queue-busy", "server-silent"}
			entries := []string{"get", "get-unbatched", "batch", "batch-ctx-only", "batch-call-ctx", "scan", "scan-continuation"}
			var cases []c13Case
			reps := c.Pick(1, 20)
			r := c.Rand("c13")
			for rep := 0; rep < reps; rep++ {
				for _, s := range states {
					for _, e := range entries {
						if e == "scan-continuation" && s != "server-silent" && s != "retry-backoff" {
							continue // elsewhere the continuation waits exactly like the opening request
						}
						for _, x := range []bool{false, true} {
							cases = append(cases, c13Case{State: s, Entry: e, Expire: x, Seed: r.Int63()})
						}
					}
				}
			}
			var wg sync.WaitGroup
			sem := make(chan struct{}, 6)
			for i, cs := range cases {
				if i%c.NBatches != c.Batch {
					continue
				}
				id := fmt.Sprintf("w%d", i)
				c.Eval(fmt.Sprintf("%s|%d", cs, i/len(states)/len(entries)/2), true)
				wg.Add(1)
				sem <- struct{}{}
				go func(cs c13Case) {
					defer wg.Done()
					defer func() { <-sem }()
					runC13Case(c, id, cs)
				}(cs)
			}
			wg.Wait()
			c.Sample(cases[0].String())
		},
	})
}

package props

import (
	"context"
	"errors"
	"fmt"
	"hash/fnv"
	"io"
	"log/slog"
	"math/rand"
	"sync"
	"sync/atomic"
	"time"

	"verif/fw"
	"verif/sim"

	"github.com/tsuna/gohbase"
	"github.com/tsuna/gohbase/hrpc"
)

// C09 — concurrent failures never crash the client or strand a waiting request.
//
// Built with the race detector. Many callers over several regions and servers
// while a fault injector kills connections, takes regions offline, splits and
// moves them and refuses dials; the client's own log statements are used as
// preemption points (seeded delays) so that every run realises a different
// interleaving. Each run ends with a fault-free phase and quiescence checks.

// errBox gives errors of different dynamic types one type for atomic.Value.
type errBox struct{ err error }

type c09Case struct {
	Seed    int64
	Callers int
	Regions int
	Servers int
	FaultMS int
	Queue   int
	Scans   bool
}

func (c c09Case) String() string {
	return fmt.Sprintf("callers=%d regions=%d servers=%d fault-phase=%dms queue=%d scans=%v", c.Callers, c.Regions, c.Servers, c.FaultMS, c.Queue, c.Scans)
}

const (
	c09StressQuick    = 12
	c09StressThorough = 48
)

// c09Borrowed: workloads of other checks that are run under the race detector
// as well (their concurrency is of other kinds than the stress runs': blocked
// writes, cancellations, Close at chosen points, scanners with renewers,
// connection bursts, batches with per-call contexts).
var c09Borrowed = []string{"C03", "C04", "C07", "C12", "C13", "C14", "C18", "C19", "C20", "C02", "C06", "C17"}

func runC09Case(c *fw.Ctx, id string, cs c09Case) {
	cl := sim.NewCluster(cs.Seed, cs.Servers)
	defer cl.Close()
	var bounds [][]byte
	for i := 1; i < cs.Regions; i++ {
		bounds = append(bounds, []byte(fmt.Sprintf("%02d", i*(100/cs.Regions))))
	}
	cl.CreateTable("t", bounds, nil)
	cl.EchoResults = true
	cl.ScanPolicy = sim.DefaultScanPolicy
	for i := 0; i < 30; i++ {
		cl.Load("t", cellsFor(fmt.Sprintf("%02d", i*3), 2))
	}
	// hook: the client's log statements are preemption points
	sig := fnv.New64a()
	var sigMu sync.Mutex
	var hookEvents int64
	delays := map[string]int{ // max delay in microseconds per hook point
		"added new region client": 3000, "removed region client": 3000, "added new region": 2000, "region was not established, retrying": 1000,
		"reestablishing region": 2000, "looked up a region": 2000, "region is already in cache": 1000, "failing awaiting RPCs": 2000,
		"error occured, closing region client": 1000, "region client is already in client's cache": 1000,
	}
	var hr = rand.New(rand.NewSource(cs.Seed ^ 0x5bd1e995))
	var hrMu sync.Mutex
	logger := slog.New(&hookHandler{f: func(msg string) {
		max, ok := delays[msg]
		if !ok {
			return
		}
		atomic.AddInt64(&hookEvents, 1)
		sigMu.Lock()
		sig.Write([]byte(msg[:8]))
		sigMu.Unlock()
		hrMu.Lock()
		d := hr.Intn(max + 1)
		hrMu.Unlock()
		if d > 200 {
			time.Sleep(time.Duration(d) * time.Microsecond)
		}
	}})
	var abortN int32
	cl.OnRequest = func(req *sim.Request) *sim.Reply {
		if n := atomic.LoadInt32(&abortN); n > 0 && req.Multi != nil && atomic.CompareAndSwapInt32(&abortN, n, n-1) {
			return &sim.Reply{Exc: &sim.Exc{Class: sim.ExcAborted, KillConn: true}}
		}
		return nil
	}
	var dialFail int32
	cl.DialFault = func(addr string, n int) error {
		if v := atomic.LoadInt32(&dialFail); v > 0 && atomic.CompareAndSwapInt32(&dialFail, v, v-1) {
			return errors.New("connection refused (injected)")
		}
		return nil
	}
	client := gohbase.VerifNewClient(cl.ZK(), gohbase.RegionDialer(cl.Dialer()), gohbase.Logger(logger), gohbase.RpcQueueSize(cs.Queue),
		gohbase.FlushInterval(time.Millisecond), gohbase.RegionLookupTimeout(2*time.Second), gohbase.RegionReadTimeout(2*time.Second))
	// one more preemption point: the construction of a connection object, which
	// runs inside the connection cache's critical section
	var nrMu sync.Mutex
	nr := rand.New(rand.NewSource(cs.Seed ^ 0x2545f491))
	gohbase.VerifOnNewRegionClient(client, func(string) {
		nrMu.Lock()
		d := nr.Intn(2000)
		nrMu.Unlock()
		atomic.AddInt64(&hookEvents, 1)
		if d > 300 {
			time.Sleep(time.Duration(d) * time.Microsecond)
		}
	})
	stopFaults := make(chan struct{})
	var faultsWg sync.WaitGroup
	faultCounts := map[string]int64{}
	var fcMu sync.Mutex
	faultsWg.Add(1)
	go func() {
		defer faultsWg.Done()
		fr := rand.New(rand.NewSource(cs.Seed + 7))
		for {
			select {
			case <-stopFaults:
				return
			case <-time.After(time.Duration(2+fr.Intn(25)) * time.Millisecond):
			}
			addrs := cl.ServerAddrs()
			regs := cl.Regions("t")
			kind := []string{"kill-conns", "offline-burst", "split", "move", "abort", "dial-fail", "kill-conns"}[fr.Intn(7)]
			fcMu.Lock()
			faultCounts[kind]++
			fcMu.Unlock()
			switch kind {
			case "kill-conns":
				cl.Server(addrs[fr.Intn(len(addrs))]).KillConns("injected")
			case "offline-burst":
				reg := regs[fr.Intn(len(regs))]
				cl.SetOffline(reg.Name, true)
				name := reg.Name
				time.AfterFunc(time.Duration(5+fr.Intn(40))*time.Millisecond, func() { cl.SetOffline(name, false) })
			case "split":
				if len(regs) < 24 {
					reg := regs[fr.Intn(len(regs))]
					at := append(append([]byte{}, reg.Start...), byte('0'+fr.Intn(10)))
					if reg.Contains(at) && string(at) != string(reg.Start) {
						cl.SplitRegion(reg.Name, at, "", addrs[fr.Intn(len(addrs))])
					}
				}
			case "move":
				cl.MoveRegion(regs[fr.Intn(len(regs))].Name, addrs[fr.Intn(len(addrs))])
			case "abort":
				atomic.StoreInt32(&abortN, 1)
			case "dial-fail":
				atomic.StoreInt32(&dialFail, int32(1+fr.Intn(2)))
			}
		}
	}()
	var completed, failed int64
	var firstErr atomic.Value
	var wg sync.WaitGroup
	var cacheRegionsCalls int64
	defer func() { c.Count("cache_regions_calls", atomic.LoadInt64(&cacheRegionsCalls)) }()
	phaseEnd := time.Now().Add(time.Duration(cs.FaultMS) * time.Millisecond)
	for g := 0; g < cs.Callers; g++ {
		wg.Add(1)
		go func(g int) {
			defer wg.Done()
			rr := rand.New(rand.NewSource(cs.Seed*1000 + int64(g)))
			for k := 0; time.Now().Before(phaseEnd) || k < 3; k++ {
				ctx, cancel := context.WithTimeout(context.Background(), 60*time.Second)
				key := fmt.Sprintf("%02d", rr.Intn(100))
				opid := fmt.Sprintf("%s%s-%d-%d", sim.OpIDPrefix, id, g, k)
				var err error
				switch x := rr.Intn(10); {
				case x < 4:
					gt, _ := hrpc.NewGetStr(ctx, "t", key, hrpc.Families(map[string][]string{"echo": {opid}}))
					_, err = client.Get(gt)
				case x < 7:
					p, _ := hrpc.NewPutStr(ctx, "t", key, map[string]map[string][]byte{"f": {opid: []byte("v")}})
					_, err = client.Put(p)
				case x < 9 || !cs.Scans:
					var b []hrpc.Call
					for i := 0; i < 1+rr.Intn(6); i++ {
						p, _ := hrpc.NewPutStr(ctx, "t", fmt.Sprintf("%02d", rr.Intn(100)), map[string]map[string][]byte{"f": {fmt.Sprintf("%s-%d", opid, i): []byte("v")}})
						b = append(b, p)
					}
					res, ok := client.SendBatch(ctx, b)
					if !ok {
						for _, x := range res {
							if x.Error != nil {
								err = x.Error
							}
						}
					}
				default:
					s, _ := hrpc.NewScanRangeStr(ctx, "t", key, "", hrpc.NumberOfRows(2), hrpc.RenewInterval(2*time.Millisecond), hrpc.Attribute("opid", []byte(opid)))
					sc := client.Scan(s)
					for n := 0; n < 6; n++ {
						_, e := sc.Next()
						if e != nil {
							if e != io.EOF {
								// a scan interrupted by a fault surfaces its error: legitimate, not counted
							}
							break
						}
						time.Sleep(time.Millisecond)
					}
					sc.Close()
				}
				cancel()
				atomic.AddInt64(&completed, 1)
				if err != nil {
					atomic.AddInt64(&failed, 1)
					firstErr.CompareAndSwap(nil, errBox{err})
				}
			}
		}(g)
	}
	if cs.Scans {
		// the whole table is re-discovered and (re)connected at once, again and
		// again, while regions fail, move and split
		wg.Add(1)
		go func() {
			defer wg.Done()
			for time.Now().Before(phaseEnd) {
				_ = client.CacheRegions([]byte("t"))
				atomic.AddInt64(&cacheRegionsCalls, 1)
				time.Sleep(15 * time.Millisecond)
			}
		}()
	}
	time.Sleep(time.Duration(cs.FaultMS) * time.Millisecond)
	close(stopFaults)
	faultsWg.Wait()
	atomic.StoreInt32(&abortN, 0)
	atomic.StoreInt32(&dialFail, 0)
	for _, reg := range cl.Regions("t") {
		cl.SetOffline(reg.Name, false)
	}
	time.Sleep(50 * time.Millisecond)
	for _, reg := range cl.Regions("t") {
		cl.SetOffline(reg.Name, false) // bursts scheduled just before the end
	}
	// stable from here on
	if !within(90*time.Second, wg.Wait) {
		_, dump := gohbaseGoroutines()
		c.Violate(id, "stress:request-stranded", fmt.Sprintf("callers still blocked 90s after the cluster became stable: %s\n%s", cs, firstLines(dump, 60)), cs)
		return
	}
	// a final round over every region, then quiescence checks
	var finalErr error
	okFinal := within(60*time.Second, func() {
		// one request into every region of the final layout (and of the cache)
		keys := map[string]bool{}
		for _, reg := range cl.Regions("t") {
			keys[string(reg.Start)] = true
		}
		for _, reg := range gohbase.VerifRegions(client) {
			keys[string(reg.StartKey())] = true
		}
		i := 0
		for k := range keys {
			i++
			ctx, cancel := context.WithTimeout(context.Background(), 50*time.Second)
			gt, _ := hrpc.NewGet(ctx, []byte("t"), []byte(k), hrpc.Families(map[string][]string{"echo": {fmt.Sprintf("%s%s-final-%d", sim.OpIDPrefix, id, i)}}))
			if _, err := client.Get(gt); err != nil && finalErr == nil {
				finalErr = err
			}
			cancel()
		}
	})
	if !okFinal {
		c.Violate(id, "stress:request-stranded", "final round did not finish in 60s on a stable cluster: "+cs.String(), cs)
		return
	}
	if finalErr != nil {
		c.Violate(id, "stress:request-failed-on-stable-cluster", fmt.Sprintf("final round: %v: %s", finalErr, cs), cs)
	}
	c.Count("requests_completed", atomic.LoadInt64(&completed))
	c.Count("requests_failed_during_faults", atomic.LoadInt64(&failed))
	if b, _ := firstErr.Load().(errBox); b.err != nil && isCtxErr(b.err) {
		// every request has a 60 s deadline and the faults stop after about half a
		// second: a request that ran into its deadline sat blocked for almost a
		// minute on a stable cluster
		c.Violate(id, "stress:request-stranded", fmt.Sprintf("a request was still blocked when its 60 s deadline expired although the cluster had long been stable (%v): %s", b.err, cs), cs)
	} else if b.err != nil {
		e := b.err
		// during the fault phase only scans may fail (their errors are not recorded);
		// single calls and batches are retried until they succeed
		c.Violate(id, "stress:retryable-error-surfaced", fmt.Sprintf("a request failed with %v: %s", e, cs), cs)
	}
	// no cached region may stay unavailable
	var unavailable []string
	for i := 0; i < 200; i++ {
		unavailable = unavailable[:0]
		for _, reg := range gohbase.VerifRegions(client) {
			if reg.IsUnavailable() {
				unavailable = append(unavailable, reg.String())
			}
		}
		if len(unavailable) == 0 {
			break
		}
		time.Sleep(25 * time.Millisecond)
	}
	c.Count("quiescence_checks", 1)
	c.Count("cached_regions_checked", int64(len(gohbase.VerifRegions(client))))
	if len(unavailable) > 0 {
		c.Violate(id, "stress:region-left-unavailable", fmt.Sprintf("%d cached region(s) still marked unavailable 5s after the last request on a stable cluster: %v: %s", len(unavailable), unavailable, cs), cs)
	}
	// every region's client, if set, must be a live connection
	for _, reg := range gohbase.VerifRegions(client) {
		if rc := reg.Client(); rc != nil {
			if err := rc.Dial(context.Background()); err != nil {
				c.Violate(id, "stress:region-holds-dead-connection", fmt.Sprintf("%v uses a closed connection to %s at quiescence: %s", reg, rc.Addr(), cs), cs)
			}
		}
	}
	for _, e := range cl.Log.Snapshot() {
		if e.Kind == "misroute" || e.Kind == "malformed" {
			c.Violate(id, "stress:"+e.Kind, fmt.Sprintf("%s %s: %s", e.Info, e.OpID, cs), cs)
		}
	}
	fcMu.Lock()
	for k, v := range faultCounts {
		c.Count("fault_"+k, v)
	}
	fcMu.Unlock()
	c.Count("hook_point_events", atomic.LoadInt64(&hookEvents))
	sigMu.Lock()
	c.EvalH(sig.Sum64(), true)
	sigMu.Unlock()
	within(5*time.Second, client.Close)
}

func init() {
	fw.Register(&fw.Prop{
		ID:              "C09",
		Level:           "exploration",
		Race:            true,
		RaceIsViolation: true,
		Rule: "race-detector builds; runs with G in {8,32,128} callers (gets, puts, batches, scans with a 2 ms renew interval, repeated CacheRegions) x R in " +
			"{1,4,16} regions x S in {1,2,4} servers while an injector applies, every 2..27 ms, connection kills, offline bursts, " +
			"splits, moves, abort exceptions and refused dials; ten of the client's log statements and the construction of connection objects act as preemption points with " +
			"seeded delays up to 3 ms. Each run ends with a fault-free phase, a final round over all regions and quiescence " +
			"checks (no caller blocked, no cached region unavailable, no region holding a dead connection); panics and fatal " +
			"errors end the child process and are attributed by the crash monitor; race reports with gohbase frames are " +
			"violations. Further batches lend the race detector and the crash monitor to slices of the other checks' quick workloads " +
			"(C02 C03 C04 C06 C07 C12 C13 C14 C17 C18 C19 C20: blocked writes, cancellations, Close at chosen points, renewing scanners, " +
			"connection bursts, per-call contexts); what those workloads' own oracles say is left to their checks. " +
			"distinct = hash of the order of hook-point events per run (interleaving signature)",
		Assumptions: []string{"a clean race log only covers accesses that actually ran concurrently", "schedule coverage is what seeds and delays realise"},
		Plan: func(tier string) fw.Plan {
			if tier == "thorough" {
				return fw.Plan{Batches: c09StressThorough + 4*len(c09Borrowed), Parallel: 12, Timeout: 60 * time.Minute}
			}
			return fw.Plan{Batches: c09StressQuick + len(c09Borrowed), Parallel: 16, Timeout: 15 * time.Minute}
		},
		Floors: func(tier string) map[string]int64 {
			return map[string]int64{"runs": 120, "requests_completed": 20000, "fault_kill-conns": 50, "fault_split": 20, "fault_offline-burst": 20,
				"fault_move": 20, "fault_abort": 20, "fault_dial-fail": 20, "hook_point_events": 1000, "quiescence_checks": 30, "distinct": 100, "borrowed_workload_batches": 12}
		},
		Run: func(c *fw.Ctx) {
			stress := c.Pick(c09StressQuick, c09StressThorough)
			if c.Batch >= stress {
				// the remaining batches lend the race detector and the crash monitor to
				// slices of the other checks' workloads
				k := c.Batch - stress
				prop := c09Borrowed[k%len(c09Borrowed)]
				nb := fw.Lookup(prop).Plan("quick").Batches
				b := int((c.Seed + int64(k/len(c09Borrowed))) % int64(nb))
				c.Begin(fmt.Sprintf("borrowed-%s-%d", prop, b), prop)
				c.Borrow(prop, b, nb)
				return
			}
			r := c.Rand("c09")
			n := c.Pick(144, 2880) / stress
			for i := 0; i < n; i++ {
				cs := c09Case{Seed: r.Int63(), Callers: []int{8, 32, 128}[r.Intn(3)], Regions: []int{1, 4, 16}[r.Intn(3)], Servers: []int{1, 2, 4}[r.Intn(3)],
					FaultMS: c.Pick(500, 1500), Queue: []int{1, 5, 100}[r.Intn(3)], Scans: r.Intn(2) == 0}
				id := fmt.Sprintf("s%d-%d", c.Batch, i)
				c.Begin(id, cs.String())
				c.Count("runs", 1)
				runC09Case(c, id, cs)
				if i == 0 {
					c.Sample(cs.String())
				}
			}
		},
	})
}

package props

import (
	"context"
	"fmt"
	"math/rand"
	"strings"
	"sync"
	"sync/atomic"
	"time"

	"verif/sim"

	"github.com/tsuna/gohbase"
	"github.com/tsuna/gohbase/hrpc"
)

// Shared by C07 and C12: batches whose calls follow per-call outcome scripts
// across retry rounds, with optional invalid entries and triggers (table
// dropped between rounds, cancellation at chosen points).

type batchCall struct {
	Kind   string // get put delete append increment
	Row    string
	Script []string // per attempt: ok fatal retry nsre dead-before dead-after abort; beyond the script: ok
}

type batchCase struct {
	Seed      int64
	Servers   int
	Bounds    []string
	Queue     int
	Flush     time.Duration
	Calls     []batchCall
	Invalid   string // "" | mixed-tables | mixed-namespaces | duplicate | non-batchable
	InvalidAt int
	// Trigger: "" | drop-table-on-nsre | cancel-before | cancel-as-reply-arrives | cancel-as-results-are-read | cancel-waiting | cancel-backoff |
	// own-ctx-reply-held (the last call has a context of its own, cancelled while the
	// reply to the multi-request that carries it and an earlier call is held; its
	// result is listed first) | own-ctx-sibling-retried (the last call, alone on the
	// second server, has its own context cancelled while unanswered; a call on the
	// first server is answered retry-later and then succeeds)
	Trigger  string
	Deadline time.Duration
}

func (b batchCase) String() string {
	var cs []string
	for _, c := range b.Calls {
		cs = append(cs, fmt.Sprintf("%s(%q)%v", c.Kind, c.Row, c.Script))
	}
	return fmt.Sprintf("servers=%d bounds=%q queue=%d flush=%v invalid=%s@%d trigger=%s calls=[%s]", b.Servers, b.Bounds, b.Queue, b.Flush,
		b.Invalid, b.InvalidAt, b.Trigger, strings.Join(cs, " "))
}

// matrix is the outcome matrix signature of a case.
func (b batchCase) matrix() string {
	var cs []string
	for _, c := range b.Calls {
		cs = append(cs, strings.Join(c.Script, ">"))
	}
	return fmt.Sprintf("%d|%s|%s|%s", len(b.Bounds), b.Invalid, b.Trigger, strings.Join(cs, ","))
}

// "abort" is a per-action exception of the server-fatal class: the connection
// stays usable, other actions of the same multi-request are answered normally.
// "rfatal" fails the whole region action the call travels in with a
// non-retryable region-level exception (its siblings of that region share it).
// "omit": the multi-response leaves the action out (not executed, not answered).
var batchOutcomes = []string{"ok", "ok", "fatal", "retry", "nsre", "dead-before", "dead-after", "abort", "rfatal", "omit"}

func genBatchCase(r *rand.Rand, maxCalls int) batchCase {
	b := batchCase{Seed: r.Int63(), Servers: 1 + r.Intn(3), Queue: []int{1, 2, 5, 100}[r.Intn(4)],
		Flush: []time.Duration{0, time.Millisecond, 4 * time.Millisecond}[r.Intn(3)], Deadline: 20 * time.Second}
	nb := r.Intn(5)
	set := map[string]bool{}
	for len(set) < nb {
		set[string([]byte{byte('b' + r.Intn(24))})] = true
	}
	for k := range set {
		b.Bounds = append(b.Bounds, k)
	}
	sortStrings(b.Bounds)
	n := 1 + r.Intn(maxCalls)
	clean := r.Intn(4) == 0
	for i := 0; i < n; i++ {
		c := batchCall{Kind: []string{"get", "put", "delete", "append", "increment"}[r.Intn(5)],
			Row: string([]byte{byte('a' + r.Intn(26)), byte('0' + r.Intn(10))})}
		if len(b.Bounds) > 0 && r.Intn(6) == 0 {
			c.Row = b.Bounds[r.Intn(len(b.Bounds))] // exactly a region boundary
		}
		if !clean {
			for k, l := 0, r.Intn(4); k < l; k++ {
				o := batchOutcomes[r.Intn(len(batchOutcomes))]
				c.Script = append(c.Script, o)
				if o == "ok" || o == "fatal" || o == "rfatal" {
					break
				}
			}
		}
		b.Calls = append(b.Calls, c)
	}
	switch r.Intn(16) {
	case 0:
		b.Invalid = []string{"mixed-tables", "mixed-namespaces"}[r.Intn(2)]
	case 1:
		b.Invalid = "duplicate"
	case 2:
		b.Invalid = "non-batchable"
	case 3, 4:
		b.Trigger = "drop-table-on-nsre"
		// make sure some call hits nsre and some other succeeds first
		if len(b.Calls) < 2 {
			b.Calls = append(b.Calls, batchCall{Kind: "put", Row: "m5"})
		}
		b.Calls[r.Intn(len(b.Calls))].Script = []string{"nsre"}
	case 5:
		b.Trigger = []string{"cancel-before", "cancel-as-reply-arrives", "cancel-as-results-are-read", "cancel-as-results-are-read"}[r.Intn(4)]
	case 6:
		b.Trigger = "cancel-waiting"
	case 7:
		b.Trigger = "cancel-backoff"
		b.Calls[r.Intn(len(b.Calls))].Script = []string{"retry", "retry", "retry", "retry", "retry", "retry", "retry", "retry", "retry"}
	case 8:
		b.Trigger = "own-ctx-reply-held"
		b.Servers, b.Bounds, b.Queue = 1, nil, 100
		if len(b.Calls) < 2 {
			b.Calls = append(b.Calls, batchCall{Kind: "put", Row: "m5"})
		}
		for i := range b.Calls {
			b.Calls[i].Script = nil
		}
	case 9:
		b.Trigger = "own-ctx-sibling-retried"
		b.Servers, b.Bounds = 2, []string{"m"}
		b.Calls = append([]batchCall{{Kind: "put", Row: "a1", Script: []string{"retry"}}}, b.Calls...)
		for i := range b.Calls {
			if i > 0 {
				b.Calls[i].Script = nil
				if b.Calls[i].Row >= "m" { // everything but the last call lives on the first server
					b.Calls[i].Row = "c" + b.Calls[i].Row
				}
			}
		}
		b.Calls = append(b.Calls, batchCall{Kind: "get", Row: "x1"})
	case 10:
		b.Trigger = "own-ctx-while-locating"
		b.Servers, b.Bounds = 1+r.Intn(2), []string{"m"}
		for i := range b.Calls {
			b.Calls[i].Script = nil
			if b.Calls[i].Row >= "m" {
				b.Calls[i].Row = "c" + b.Calls[i].Row
			}
		}
		b.Calls = append(b.Calls, batchCall{Kind: "put", Row: "x1"})
	case 11:
		b.Trigger = "own-ctx-retry-round-lookup"
		b.Servers, b.Bounds, b.Queue = 2, []string{"m"}, 100
		n := 3 + r.Intn(5)
		b.Calls = nil
		for i := 0; i < n; i++ {
			// the middle call is the only one for the second region (and server):
			// grouping the retry round by server moves it to one end of the list
			row := "a" + fmt.Sprint(i)
			if i == n/2 {
				row = "x" + fmt.Sprint(i)
			}
			b.Calls = append(b.Calls, batchCall{Kind: []string{"put", "get"}[r.Intn(2)], Row: row, Script: []string{"retry"}})
		}
		b.Calls[n/2].Script = []string{"nsre"}
	}
	if b.Invalid != "" {
		b.InvalidAt = r.Intn(len(b.Calls) + 1)
		if b.Invalid == "duplicate" && len(b.Calls) < 1 {
			b.Invalid = ""
		}
	}
	return b
}

func sortStrings(s []string) {
	for i := range s {
		for j := i + 1; j < len(s); j++ {
			if s[j] < s[i] {
				s[i], s[j] = s[j], s[i]
			}
		}
	}
}

type batchAttempt struct {
	OpID     string
	K        int
	Decision string
	Conn     int64
	CallID   uint32
	Region   string
	FrameSeq int // arrival order of the frame (global)
	Pos      int // position inside the frame's region action list
	Index    uint32
}

type batchRun struct {
	Case        batchCase
	OpIDs       []string // per call of the (valid part of the) batch; "" for injected invalid entries
	Calls       []hrpc.Call
	Res         []hrpc.RPCResult
	AllOK       bool
	Returned    bool
	Events      []sim.Event
	Attempts    map[string][]*batchAttempt
	Cluster     *sim.Cluster
	Elapsed     time.Duration
	CancelledAt time.Duration
	OwnCtx      int // index of the call with a context of its own (-1: none)
}

const fatalMarker = "fatal-for-"

func runBatchCase(b batchCase, tag string) *batchRun {
	cl := sim.NewCluster(b.Seed, b.Servers)
	var bounds [][]byte
	for _, s := range b.Bounds {
		bounds = append(bounds, []byte(s))
	}
	cl.CreateTable("t", bounds, nil)
	cl.CreateTable("other", nil, nil)
	cl.CreateTable("ns:t", nil, nil) // same qualifier as "t", another namespace
	cl.EchoResults = true
	cl.PermuteMulti = b.Seed%2 == 0
	run := &batchRun{Case: b, Attempts: map[string][]*batchAttempt{}, Cluster: cl, OwnCtx: -1}
	var cancelOwnCtx func()
	var holdMeta int32
	var ownOnce, lookupOnce sync.Once
	ownOp := ""
	switch b.Trigger {
	case "own-ctx-reply-held":
		cl.ReverseMulti = true
		cl.PermuteMulti = false
	case "own-ctx-sibling-retried":
		// region 0 on rs0, region 1 on rs1
		for i, rg := range cl.Regions("t") {
			cl.MoveRegion(rg.Name, fmt.Sprintf("rs%d:16020", i))
		}
	}
	scripts := map[string][]string{}
	var mu sync.Mutex
	arrivals := map[string]int{}
	decisions := map[string]string{}
	frameSeq := 0
	ctx, cancel := context.WithTimeout(context.Background(), b.Deadline)
	defer cancel()
	cancelOnce := sync.Once{}
	t0 := time.Now()
	doCancel := func() {
		cancelOnce.Do(func() {
			run.CancelledAt = time.Since(t0)
			cancel()
		})
	}
	closedChan := make(chan struct{})
	close(closedChan)
	hold := make(chan struct{})
	defer func() {
		select {
		case <-hold:
		default:
			close(hold)
		}
	}()
	dropped := false
	cl.OnRequest = func(req *sim.Request) *sim.Reply {
		var acts []*sim.Action
		if req.Single != nil {
			acts = append(acts, req.Single)
		}
		for _, ra := range req.Multi {
			acts = append(acts, ra.Actions...)
		}
		mu.Lock()
		frameSeq++
		fs := frameSeq
		killBefore, killAfter, relevant := false, false, false
		pos := map[string]int{}
		for _, a := range acts {
			sc, ok := scripts[a.OpID]
			if !ok {
				continue
			}
			relevant = true
			k := arrivals[a.OpID]
			arrivals[a.OpID]++
			d := "ok"
			if k < len(sc) {
				d = sc[k]
			}
			decisions[fmt.Sprintf("%d/%d/%s", req.Conn.ID, req.CallID, a.OpID)] = d
			run.Attempts[a.OpID] = append(run.Attempts[a.OpID], &batchAttempt{OpID: a.OpID, K: k, Decision: d, Conn: req.Conn.ID,
				CallID: req.CallID, Region: string(a.Region), FrameSeq: fs, Pos: pos[string(a.Region)], Index: a.Index})
			pos[string(a.Region)]++
			switch d {
			case "dead-before":
				killBefore = true
			case "dead-after":
				killAfter = true
			}
		}
		mu.Unlock()
		if !relevant && b.Trigger == "own-ctx-retry-round-lookup" && atomic.LoadInt32(&holdMeta) == 1 &&
			req.Scan != nil && string(req.Scan.GetRegion().GetValue()) == string(sim.MetaRegionName) {
			// the lookup of the retry round has arrived and stays unanswered: only now
			// does the call give up (decided by this event, not by a timer: on a loaded
			// machine a timer may fire before the client has even read the first answer)
			lookupOnce.Do(func() { go func() { time.Sleep(3 * time.Millisecond); cancelOwnCtx() }() })
			return &sim.Reply{HoldDefault: hold}
		}
		if !relevant {
			if b.Trigger == "own-ctx-while-locating" && req.Scan != nil && req.Scan.Scan != nil &&
				strings.Contains(string(req.Scan.Scan.StartRow), ",x1,") {
				// the meta lookup for the last call's key
				fired := false
				ownOnce.Do(func() { fired = true })
				if fired {
					go func() { time.Sleep(3 * time.Millisecond); cancelOwnCtx() }()
					return &sim.Reply{HoldDefault: hold}
				}
			}
			return nil
		}
		if ownOp != "" {
			carriesOwn := false
			for _, a := range acts {
				if a.OpID == ownOp {
					carriesOwn = true
				}
			}
			if carriesOwn {
				fired := false
				ownOnce.Do(func() { fired = true })
				if fired {
					switch b.Trigger {
					case "own-ctx-reply-held":
						// executed, reply held; the call's context is cancelled; then
						// the reply goes out with this call's result listed first
						h := make(chan struct{})
						go func() {
							time.Sleep(3 * time.Millisecond)
							cancelOwnCtx()
							time.Sleep(10 * time.Millisecond)
							close(h)
						}()
						return &sim.Reply{HoldDefault: h}
					case "own-ctx-sibling-retried":
						go func() { time.Sleep(3 * time.Millisecond); cancelOwnCtx() }()
						return &sim.Reply{HoldDefault: hold}
					}
				}
			}
		}
		if b.Trigger == "cancel-waiting" {
			go func() { time.Sleep(2 * time.Millisecond); doCancel() }()
			return &sim.Reply{HoldDefault: hold}
		}
		if b.Trigger == "cancel-as-reply-arrives" {
			// answered normally; the batch context ends the moment the reply has been
			// written, i.e. while the client's reader is handing out the results
			return &sim.Reply{HoldDefault: closedChan, AfterSend: doCancel}
		}
		if killBefore {
			return &sim.Reply{Drop: true, KillConn: true}
		}
		if killAfter {
			return &sim.Reply{DefaultThenKill: true}
		}
		return nil
	}
	cl.OnRegionAction = func(req *sim.Request, region []byte) *sim.Exc {
		mu.Lock()
		defer mu.Unlock()
		hit := false
		var ops []string
		for _, ra := range req.Multi {
			if string(ra.Region) != string(region) {
				continue
			}
			for _, a := range ra.Actions {
				ops = append(ops, fatalMarker+a.OpID)
				if decisions[fmt.Sprintf("%d/%d/%s", req.Conn.ID, req.CallID, a.OpID)] == "rfatal" {
					hit = true
				}
			}
		}
		if !hit {
			return nil
		}
		return &sim.Exc{Class: sim.ExcDoNotRetry, Stack: sim.ExcDoNotRetry + ": region action refused\n" + strings.Join(ops, "\n")}
	}
	cl.OnAction = func(req *sim.Request, a *sim.Action) *sim.Exc {
		mu.Lock()
		d := decisions[fmt.Sprintf("%d/%d/%s", req.Conn.ID, req.CallID, a.OpID)]
		doDrop := d == "nsre" && b.Trigger == "drop-table-on-nsre" && !dropped
		if doDrop {
			dropped = true
		}
		mu.Unlock()
		switch d {
		case "fatal":
			return &sim.Exc{Class: sim.ExcDoNotRetry, Stack: sim.ExcDoNotRetry + ": " + fatalMarker + a.OpID}
		case "retry":
			if b.Trigger == "cancel-backoff" {
				go func() { time.Sleep(40 * time.Millisecond); doCancel() }()
			}
			return &sim.Exc{Class: sim.ExcTooBusy}
		case "abort":
			return &sim.Exc{Class: sim.ExcAborted}
		case "omit":
			if req.Multi != nil {
				return &sim.Exc{Class: "omitted", Omit: true}
			}
			return &sim.Exc{Class: sim.ExcTooBusy} // (a single request cannot be left out of its own response)
		case "nsre":
			if doDrop {
				cl.DropTable("t")
			}
			if b.Trigger == "own-ctx-retry-round-lookup" && a.OpID == ownOp && atomic.CompareAndSwapInt32(&holdMeta, 0, 1) {
				// its region is looked up again in the retry round: that lookup is
				// not answered, and the call gives up once it has arrived (see above)
			}
			return &sim.Exc{Class: sim.ExcNSRE}
		}
		return nil
	}
	client := newClient(cl, gohbase.RpcQueueSize(b.Queue), gohbase.FlushInterval(b.Flush),
		gohbase.RegionLookupTimeout(3*time.Second), gohbase.RegionReadTimeout(5*time.Second))
	ownCtx, cancelOwn := context.WithCancel(ctx)
	defer cancelOwn()
	ownIdx := -1
	if strings.HasPrefix(b.Trigger, "own-ctx") {
		ownIdx = len(b.Calls) - 1
		if b.Trigger == "own-ctx-retry-round-lookup" {
			ownIdx = len(b.Calls) / 2
		}
		if b.Trigger == "own-ctx-reply-held" && b.Seed%2 == 0 {
			// the call that gives up is the first of the multi-request: SendBatch
			// sees its context end before the (held) reply arrives; the reply must
			// still reach all the others
			ownIdx = 0
		}
		run.OwnCtx = ownIdx
	}
	mk := func(i int, c batchCall, table string) (hrpc.Call, string) {
		ctx := ctx
		if i == ownIdx {
			ctx = ownCtx
		}
		opid := fmt.Sprintf("%s%s-%d", sim.OpIDPrefix, tag, i)
		row := []byte(c.Row)
		vals := map[string]map[string][]byte{"f": {opid: []byte("v")}}
		var call hrpc.Call
		var err error
		switch c.Kind {
		case "get":
			call, err = hrpc.NewGet(ctx, []byte(table), row, hrpc.Families(map[string][]string{"echo": {opid}}))
		case "put":
			call, err = hrpc.NewPut(ctx, []byte(table), row, vals)
		case "delete":
			call, err = hrpc.NewDel(ctx, []byte(table), row, vals)
		case "append":
			call, err = hrpc.NewApp(ctx, []byte(table), row, vals)
		case "increment":
			vals["f"][opid] = []byte{0, 0, 0, 0, 0, 0, 0, 1}
			call, err = hrpc.NewInc(ctx, []byte(table), row, vals)
		}
		if err != nil {
			panic(err)
		}
		if b.Trigger == "cancel-as-results-are-read" {
			switch x := call.(type) {
			case *hrpc.Get:
				call = &resultWatchGet{x, doCancel}
			case *hrpc.Mutate:
				call = &resultWatchMutate{x, doCancel}
			}
		}
		return call, opid
	}
	for i, c := range b.Calls {
		call, opid := mk(i, c, "t")
		run.Calls = append(run.Calls, call)
		run.OpIDs = append(run.OpIDs, opid)
		scripts[opid] = c.Script
		if i == ownIdx {
			mu.Lock()
			ownOp = opid
			mu.Unlock()
		}
	}
	cancelOwnCtx = cancelOwn
	switch b.Invalid {
	case "mixed-tables", "mixed-namespaces":
		call, opid := mk(1000, batchCall{Kind: "put", Row: "zz"}, map[string]string{"mixed-tables": "other", "mixed-namespaces": "ns:t"}[b.Invalid])
		scripts[opid] = nil
		run.insert(b.InvalidAt, call, opid)
	case "duplicate":
		src := b.InvalidAt % len(run.Calls)
		run.insert(b.InvalidAt, run.Calls[src], run.OpIDs[src])
	case "non-batchable":
		sc, _ := hrpc.NewScanStr(ctx, "t")
		var call hrpc.Call = sc
		switch b.Seed % 3 {
		case 0:
			g, _ := hrpc.NewGetStr(ctx, "t", "q1", hrpc.SkipBatch())
			call = g
		case 1:
			// a check-and-put cannot travel in a multi-request (its condition has no place there)
			p, _ := hrpc.NewPutStr(ctx, "t", "q1", map[string]map[string][]byte{"f": {"q": []byte("v")}})
			if cp, err := hrpc.NewCheckAndPut(p, "f", "q", []byte("expected")); err == nil {
				call = cp
			}
		}
		run.insert(b.InvalidAt, call, "")
	}
	if b.Trigger == "cancel-before" {
		doCancel()
	}
	run.Returned = within(b.Deadline+20*time.Second, func() {
		run.Res, run.AllOK = client.SendBatch(ctx, run.Calls)
	})
	run.Elapsed = time.Since(t0)
	select {
	case <-hold:
	default:
		close(hold)
	}
	time.Sleep(2 * time.Millisecond)
	within(5*time.Second, client.Close)
	run.Events = cl.Log.Snapshot()
	cl.Close()
	return run
}

// resultWatchGet / resultWatchMutate: calls whose owner cancels the batch
// context at the moment SendBatch comes to collect a result that has already
// been delivered (the result channel is looked at with the result in it).
// The cancellation could happen then by chance; the wrapper makes it happen.
type resultWatchGet struct {
	*hrpc.Get
	hook func()
}

func (g *resultWatchGet) ResultChan() chan hrpc.RPCResult {
	ch := g.Get.ResultChan()
	if len(ch) == 1 {
		g.hook()
	}
	return ch
}

type resultWatchMutate struct {
	*hrpc.Mutate
	hook func()
}

func (m *resultWatchMutate) ResultChan() chan hrpc.RPCResult {
	ch := m.Mutate.ResultChan()
	if len(ch) == 1 {
		m.hook()
	}
	return ch
}

func (r *batchRun) insert(at int, call hrpc.Call, opid string) {
	if at > len(r.Calls) {
		at = len(r.Calls)
	}
	r.Calls = append(r.Calls[:at:at], append([]hrpc.Call{call}, r.Calls[at:]...)...)
	r.OpIDs = append(r.OpIDs[:at:at], append([]string{opid}, r.OpIDs[at:]...)...)
}

// delivered reports whether the reply to (conn, callID) was written completely.
func (r *batchRun) delivered(conn int64, callID uint32) bool {
	for i := range r.Events {
		e := &r.Events[i]
		if e.Kind == "reply" && e.Conn == conn && e.CallID == callID {
			return e.Info == "ok"
		}
	}
	return false
}

// execCount counts successful executions of an op on the servers.
func (r *batchRun) execCount(opid string) int {
	n := 0
	for i := range r.Events {
		if r.Events[i].Kind == "exec" && r.Events[i].OpID == opid {
			n++
		}
	}
	return n
}

// actual returns what the server really did with an attempt: "exec" if it
// executed the operation, the exception class it answered with, or "" if the
// attempt was never processed (frame dropped).
func (r *batchRun) actual(a *batchAttempt) string {
	for i := range r.Events {
		e := &r.Events[i]
		if e.OpID != a.OpID || e.Conn != a.Conn || e.CallID != a.CallID {
			continue
		}
		switch e.Kind {
		case "exec":
			return "exec"
		case "exec-fault":
			return strings.TrimPrefix(e.Info, "region-level ")
		}
	}
	return ""
}

// enumBatchCases enumerates every single-fault placement for batches of 1..4
// calls over two regions on two servers: one call follows a script of one or
// two outcomes (the first one not ok), all others succeed.
func enumBatchCases() []batchCase {
	rows := []string{"a1", "z1", "b2", "y2"}
	kinds := []string{"put", "get", "increment", "append"}
	outcomes := []string{"fatal", "retry", "nsre", "dead-before", "dead-after", "abort", "rfatal", "omit"}
	seconds := []string{"", "ok", "fatal", "retry", "nsre", "dead-before", "dead-after", "abort", "rfatal"}
	var out []batchCase
	seed := int64(1)
	for n := 1; n <= 4; n++ {
		for p := 0; p < n; p++ {
			for _, o1 := range outcomes {
				for _, o2 := range seconds {
					seed++
					b := batchCase{Seed: seed, Servers: 2, Bounds: []string{"m"}, Queue: []int{100, 2}[int(seed)%2], Deadline: 20 * time.Second}
					for i := 0; i < n; i++ {
						c := batchCall{Kind: kinds[i], Row: rows[i]}
						if i == p {
							c.Script = []string{o1}
							if o2 != "" {
								c.Script = append(c.Script, o2)
							}
						}
						b.Calls = append(b.Calls, c)
					}
					out = append(out, b)
				}
			}
		}
	}
	return out
}

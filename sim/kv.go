// Package sim is a simulated HBase cluster speaking the real wire protocol.
// This file: an independent implementation of the KeyValue cell codec
// (org.apache.hadoop.hbase.codec.KeyValueCodec), written from the format
// definition and not from gohbase's code.
package sim

import (
	"encoding/binary"
	"errors"
	"fmt"
)

// KeyValue type codes.
const (
	TypePut                 = 4
	TypeDelete              = 8
	TypeDeleteFamilyVersion = 10
	TypeDeleteColumn        = 12
	TypeDeleteFamily        = 14
)

// LatestTimestamp is HBase's LATEST_TIMESTAMP (Long.MAX_VALUE).
const LatestTimestamp = uint64(1<<63 - 1)

// Cell is one KeyValue.
type Cell struct {
	Row, Family, Qualifier []byte
	TS                     uint64
	Type                   byte
	Value                  []byte
}

func (c Cell) String() string {
	v := c.Value
	if len(v) > 24 {
		v = v[:24]
	}
	return fmt.Sprintf("%q/%q:%q/%d/%d=%q(%d)", c.Row, c.Family, c.Qualifier, c.TS, c.Type, v, len(c.Value))
}

// Key returns a canonical string for set comparison.
func (c Cell) Key() string {
	return fmt.Sprintf("%d:%s|%d:%s|%d:%s|%d|%d|%d:%s", len(c.Row), c.Row, len(c.Family), c.Family,
		len(c.Qualifier), c.Qualifier, c.TS, c.Type, len(c.Value), c.Value)
}

// AppendKV appends the wire form of c.
func AppendKV(dst []byte, c Cell) []byte {
	klen := 2 + len(c.Row) + 1 + len(c.Family) + len(c.Qualifier) + 8 + 1
	vlen := len(c.Value)
	var u32 [4]byte
	put32 := func(v int) {
		binary.BigEndian.PutUint32(u32[:], uint32(v))
		dst = append(dst, u32[:]...)
	}
	put32(8 + klen + vlen)
	put32(klen)
	put32(vlen)
	dst = append(dst, byte(len(c.Row)>>8), byte(len(c.Row)))
	dst = append(dst, c.Row...)
	dst = append(dst, byte(len(c.Family)))
	dst = append(dst, c.Family...)
	dst = append(dst, c.Qualifier...)
	var u64 [8]byte
	binary.BigEndian.PutUint64(u64[:], c.TS)
	dst = append(dst, u64[:]...)
	dst = append(dst, c.Type)
	dst = append(dst, c.Value...)
	return dst
}

// EncodeCells encodes cells back to back.
func EncodeCells(cells []Cell) []byte {
	var b []byte
	for _, c := range cells {
		b = AppendKV(b, c)
	}
	return b
}

// DecodeKV decodes one cell from b and returns the bytes consumed.
func DecodeKV(b []byte) (Cell, int, error) {
	var c Cell
	if len(b) < 4 {
		return c, 0, errors.New("kv: short length prefix")
	}
	total := int(binary.BigEndian.Uint32(b))
	if total < 8 || total > len(b)-4 {
		return c, 0, fmt.Errorf("kv: total length %d does not fit in %d bytes", total, len(b)-4)
	}
	body := b[4 : 4+total]
	klen := int(binary.BigEndian.Uint32(body))
	vlen := int(binary.BigEndian.Uint32(body[4:]))
	if klen < 0 || vlen < 0 || 8+klen+vlen != total {
		return c, 0, fmt.Errorf("kv: key %d + value %d + 8 != total %d", klen, vlen, total)
	}
	key := body[8 : 8+klen]
	val := body[8+klen:]
	if len(key) < 2 {
		return c, 0, errors.New("kv: key too short for row length")
	}
	rlen := int(key[0])<<8 | int(key[1])
	key = key[2:]
	if len(key) < rlen+1 {
		return c, 0, errors.New("kv: key too short for row")
	}
	c.Row = key[:rlen]
	key = key[rlen:]
	flen := int(key[0])
	key = key[1:]
	if len(key) < flen+9 {
		return c, 0, errors.New("kv: key too short for family+ts+type")
	}
	c.Family = key[:flen]
	key = key[flen:]
	c.Qualifier = key[:len(key)-9]
	key = key[len(key)-9:]
	c.TS = binary.BigEndian.Uint64(key)
	c.Type = key[8]
	c.Value = val
	return c, 4 + total, nil
}

// DecodeCells decodes all cells in b; b must be consumed exactly.
func DecodeCells(b []byte) ([]Cell, error) {
	var out []Cell
	for len(b) > 0 {
		c, n, err := DecodeKV(b)
		if err != nil {
			return out, err
		}
		out = append(out, c)
		b = b[n:]
	}
	return out, nil
}

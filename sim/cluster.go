package sim

import (
	"bytes"
	"context"
	"errors"
	"fmt"
	"math/rand"
	"net"
	"sort"
	"strings"
	"sync"
	"sync/atomic"
	"time"

	"github.com/tsuna/gohbase/zk"
)

// Region is one region of the simulated layout.
type Region struct {
	Table       string // fully qualified ("t" or "ns:t")
	Start, Stop []byte
	ID          uint64
	Name        []byte
	Server      string
	Offline     bool // hosted by nobody (answers NSRE everywhere)
	NotInMeta   bool // served, but hbase:meta has no row for it (yet)
	// MetaReplicaOnly: the hbase:meta row has no location for the region itself
	// (primary in transition: info:server missing or empty) but carries the
	// columns of a read replica (info:server_0001 ...) on this server
	MetaReplicaOnly string
	MetaOffline bool // its hbase:meta row carries offline=true (a region in transition / a split parent)
}

// Contains reports whether row lies in [Start,Stop).
func (r *Region) Contains(row []byte) bool {
	return bytes.Compare(r.Start, row) <= 0 && (len(r.Stop) == 0 || bytes.Compare(row, r.Stop) < 0)
}

func (r *Region) String() string {
	return fmt.Sprintf("%s[%q,%q)#%d@%s", r.Table, r.Start, r.Stop, r.ID, r.Server)
}

// RegionName builds a region name.
func RegionName(table string, start []byte, id uint64) []byte {
	return []byte(fmt.Sprintf("%s,%s,%d.%032x.", table, start, id, id*2654435761))
}

// MetaRegionName is the name gohbase uses for hbase:meta.
var MetaRegionName = []byte("hbase:meta,,1")

// Event is one entry of the wire event log.
type Event struct {
	Seq    int64
	T      time.Duration
	Kind   string // accept close frame exec reply fault malformed misroute scanner-open scanner-close dial dial-fail dial-ok zk meta-lookup conn-kill
	Server string
	Conn   int64
	CallID uint32
	Method string
	Region string
	Table  string
	Row    []byte
	OpID   string
	Index  uint32
	Info   string
	N      int64
}

// Log is the append-only event log (one clock, one process).
type Log struct {
	mu      sync.Mutex
	start   time.Time
	events  []Event
	dropped int64
}

// maxLogEvents bounds the log of one cluster: a client in a hot loop (which the
// checks report from what was logged until then) must not take the process down.
const maxLogEvents = 1 << 21

// Add appends an event.
func (l *Log) Add(e Event) {
	l.mu.Lock()
	if len(l.events) >= maxLogEvents {
		l.dropped++
		l.mu.Unlock()
		return
	}
	e.Seq = int64(len(l.events))
	e.T = time.Since(l.start)
	l.events = append(l.events, e)
	l.mu.Unlock()
}

// Dropped returns how many events were not recorded because the log was full.
func (l *Log) Dropped() int64 {
	l.mu.Lock()
	defer l.mu.Unlock()
	return l.dropped
}

// Snapshot returns a copy of the events so far.
func (l *Log) Snapshot() []Event {
	l.mu.Lock()
	defer l.mu.Unlock()
	return append([]Event(nil), l.events...)
}

// Len returns the number of events.
func (l *Log) Len() int {
	l.mu.Lock()
	defer l.mu.Unlock()
	return len(l.events)
}

// Count counts events matching f.
func (l *Log) Count(f func(*Event) bool) int {
	l.mu.Lock()
	defer l.mu.Unlock()
	n := 0
	for i := range l.events {
		if f(&l.events[i]) {
			n++
		}
	}
	return n
}

// Now returns the log clock.
func (l *Log) Now() time.Duration { return time.Since(l.start) }

// Cluster is the simulated HBase cluster.
type Cluster struct {
	mu         sync.Mutex
	servers    map[string]*Server
	regions    []*Region
	metaAddr   string
	masterAddr string
	tables     map[string]*tableData
	scanners   map[uint64]*scannerState
	nextScan   uint64
	clock      uint64 // logical timestamp source
	nextID     uint64
	rng        *rand.Rand
	Log        *Log
	connSeq    int64

	// Behaviour knobs (set before use, read under mu or immutable)
	OnRequest      func(*Request) *Reply        // whole-frame interception
	OnAction       func(*Request, *Action) *Exc // per single operation
	OnRegionAction func(*Request, []byte) *Exc  // per region of a multi
	ScanPolicy     func(*ScanCtx) ScanChunk
	// Tap sees every decoded request before it is handled.
	Tap func(*Request)
	// ForceNoMoreResults, if it returns true for a scan request, makes the
	// server answer it with more_results=false (and close its scanner) even
	// though rows remain: a server-side limit or filter ended the scan.
	ForceNoMoreResults func(*Request) bool
	MaxReplyDelay      time.Duration // responses are delayed by a random time up to this (reorders them)
	PermuteMulti       bool          // permute ResultOrException inside a region action result
	ReverseMulti       bool          // list ResultOrException in reverse request order
	ZeroScannerID      bool          // the first scanner opened on a user table gets id 0 (ids are arbitrary 64-bit values)
	PBResults          bool          // send results inside protobuf instead of cellblocks
	EchoResults        bool          // mutations answer with cells derived from the request
	ZKErr              func() error  // non-nil error => ZK lookup fails
	ZKBlock            chan struct{} // non-nil => ZK lookups block until closed
	DialFault          func(addr string, n int) error
	DialDelay          func(addr string, n int) time.Duration
	WrapConn           func(addr string, c net.Conn) net.Conn
	dials              map[string]int
	closed             bool
}

// Exc is a Java exception to send.
type Exc struct {
	Class string
	Stack string
	// KillConn: close the connection after sending (connection-fatal classes).
	KillConn bool
	// Omit (per-action, inside a multi-request only): the action is neither
	// executed nor mentioned in the response.
	Omit bool
}

// NewCluster creates an empty cluster with nServers region servers named
// rs0:16020.. ; rs0 hosts hbase:meta and the master lives at master:16000.
func NewCluster(seed int64, nServers int) *Cluster {
	c := &Cluster{
		servers:  map[string]*Server{},
		tables:   map[string]*tableData{},
		scanners: map[uint64]*scannerState{},
		rng:      rand.New(rand.NewSource(seed)),
		Log:      &Log{start: time.Now()},
		nextScan: 1000,
		clock:    1000,
		nextID:   1500000000000,
		dials:    map[string]int{},
	}
	for i := 0; i < nServers; i++ {
		c.AddServer(fmt.Sprintf("rs%d:16020", i))
	}
	c.AddServer("master:16000")
	c.metaAddr = "rs0:16020"
	c.masterAddr = "master:16000"
	return c
}

// Rand returns a value from the cluster's PRNG (thread-safe).
func (c *Cluster) randIntn(n int) int {
	c.mu.Lock()
	defer c.mu.Unlock()
	return c.rng.Intn(n)
}

// AddServer starts a server listening on loopback under a symbolic address.
func (c *Cluster) AddServer(addr string) *Server {
	ln, err := net.Listen("tcp", "127.0.0.1:0")
	if err != nil {
		panic(err)
	}
	s := &Server{c: c, Addr: addr, ln: ln, conns: map[*ServerConn]struct{}{}}
	c.mu.Lock()
	c.servers[addr] = s
	c.mu.Unlock()
	go s.acceptLoop()
	return s
}

// Server returns the server with that symbolic address.
func (c *Cluster) Server(addr string) *Server {
	c.mu.Lock()
	defer c.mu.Unlock()
	return c.servers[addr]
}

// ServerAddrs lists region server addresses (without the master).
func (c *Cluster) ServerAddrs() []string {
	c.mu.Lock()
	defer c.mu.Unlock()
	var out []string
	for a := range c.servers {
		if a != c.masterAddr {
			out = append(out, a)
		}
	}
	sort.Strings(out)
	return out
}

// SetMeta moves hbase:meta to another server.
func (c *Cluster) SetMeta(addr string) {
	c.mu.Lock()
	c.metaAddr = addr
	c.mu.Unlock()
	c.Log.Add(Event{Kind: "fault", Info: "meta-moved", Server: addr})
}

// MetaAddr returns the server hosting hbase:meta.
func (c *Cluster) MetaAddr() string {
	c.mu.Lock()
	defer c.mu.Unlock()
	return c.metaAddr
}

// SetMaster moves the active master.
func (c *Cluster) SetMaster(addr string) {
	c.mu.Lock()
	c.masterAddr = addr
	c.mu.Unlock()
	c.Log.Add(Event{Kind: "fault", Info: "master-moved", Server: addr})
}

// Close stops all servers.
func (c *Cluster) Close() {
	c.mu.Lock()
	c.closed = true
	servers := make([]*Server, 0, len(c.servers))
	for _, s := range c.servers {
		servers = append(servers, s)
	}
	c.mu.Unlock()
	for _, s := range servers {
		s.ln.Close()
		s.KillConns("cluster-close")
	}
}

// CreateTable lays out a table: splits are the region boundaries (sorted);
// regions are assigned to servers round-robin starting at a random one, or by
// the assign function if given.
func (c *Cluster) CreateTable(table string, splits [][]byte, assign func(i int) string) []*Region {
	c.mu.Lock()
	defer c.mu.Unlock()
	var addrs []string
	for a := range c.servers {
		if a != c.masterAddr && a != "master:16000" {
			addrs = append(addrs, a)
		}
	}
	sort.Strings(addrs)
	off := c.rng.Intn(len(addrs))
	var out []*Region
	bounds := append([][]byte{{}}, splits...)
	// the regions of a pre-split table are created at the same moment: like in
	// HBase they carry the same region id (creation timestamp) and differ by start key
	c.nextID++
	for i, start := range bounds {
		var stop []byte
		if i+1 < len(bounds) {
			stop = bounds[i+1]
		}
		r := &Region{Table: table, Start: append([]byte{}, start...), Stop: append([]byte{}, stop...), ID: c.nextID}
		r.Name = RegionName(table, r.Start, r.ID)
		if assign != nil {
			r.Server = assign(i)
		} else {
			r.Server = addrs[(off+i)%len(addrs)]
		}
		c.regions = append(c.regions, r)
		out = append(out, r)
	}
	if c.tables[table] == nil {
		c.tables[table] = &tableData{rows: map[string]*rowData{}}
	}
	return out
}

// DropTable removes a table's regions and data.
func (c *Cluster) DropTable(table string) {
	c.mu.Lock()
	var keep []*Region
	for _, r := range c.regions {
		if r.Table != table {
			keep = append(keep, r)
		}
	}
	c.regions = keep
	delete(c.tables, table)
	c.mu.Unlock()
	c.Log.Add(Event{Kind: "fault", Info: "table-dropped", Table: table})
}

// Regions returns the current regions of a table in key order.
func (c *Cluster) Regions(table string) []*Region {
	c.mu.Lock()
	defer c.mu.Unlock()
	return c.regionsLocked(table)
}

func (c *Cluster) regionsLocked(table string) []*Region {
	var out []*Region
	for _, r := range c.regions {
		if r.Table == table {
			out = append(out, r)
		}
	}
	sort.Slice(out, func(i, j int) bool { return bytes.Compare(out[i].Start, out[j].Start) < 0 })
	return out
}

// Owner returns the region currently owning (table,row), or nil.
func (c *Cluster) Owner(table string, row []byte) *Region {
	c.mu.Lock()
	defer c.mu.Unlock()
	return c.ownerLocked(table, row)
}

func (c *Cluster) ownerLocked(table string, row []byte) *Region {
	for _, r := range c.regions {
		if r.Table == table && r.Contains(row) {
			return r
		}
	}
	return nil
}

func (c *Cluster) regionByNameLocked(name []byte) *Region {
	for _, r := range c.regions {
		if bytes.Equal(r.Name, name) {
			return r
		}
	}
	return nil
}

// RegionByName finds a current region.
func (c *Cluster) RegionByName(name []byte) *Region {
	c.mu.Lock()
	defer c.mu.Unlock()
	return c.regionByNameLocked(name)
}

// MoveRegion reassigns a region (same name/id) to another server.
func (c *Cluster) MoveRegion(name []byte, to string) {
	c.mu.Lock()
	if r := c.regionByNameLocked(name); r != nil {
		r.Server = to
	}
	c.mu.Unlock()
	c.Log.Add(Event{Kind: "fault", Info: "region-moved", Region: string(name), Server: to})
}

// SetOffline makes a region unserved (NSRE everywhere) or served again.
func (c *Cluster) SetOffline(name []byte, off bool) {
	c.mu.Lock()
	if r := c.regionByNameLocked(name); r != nil {
		r.Offline = off
	}
	c.mu.Unlock()
	c.Log.Add(Event{Kind: "fault", Info: fmt.Sprintf("region-offline=%v", off), Region: string(name)})
}

// SetMetaOffline sets or clears the offline flag in the region's hbase:meta row.
func (c *Cluster) SetMetaOffline(name []byte, off bool) {
	c.mu.Lock()
	if r := c.regionByNameLocked(name); r != nil {
		r.MetaOffline = off
	}
	c.mu.Unlock()
	c.Log.Add(Event{Kind: "fault", Info: fmt.Sprintf("region-offline-in-meta=%v", off), Region: string(name)})
}

// SetInMeta hides a region's row from hbase:meta or shows it again: a lookup
// for a key of a hidden region is answered with the preceding row of the table
// (or none), as a reversed meta scan does while meta lags behind a split.
func (c *Cluster) SetInMeta(name []byte, in bool) {
	c.mu.Lock()
	if r := c.regionByNameLocked(name); r != nil {
		r.NotInMeta = !in
	}
	c.mu.Unlock()
	c.Log.Add(Event{Kind: "fault", Info: fmt.Sprintf("region-in-meta=%v", in), Region: string(name)})
}

// SetMetaReplicaOnly makes the hbase:meta row of a region list only a read
// replica's location (on server addr); "" restores the normal row.
func (c *Cluster) SetMetaReplicaOnly(name []byte, addr string) {
	c.mu.Lock()
	if r := c.regionByNameLocked(name); r != nil {
		r.MetaReplicaOnly = addr
	}
	c.mu.Unlock()
	c.Log.Add(Event{Kind: "fault", Info: "region-in-meta=replica-only@" + addr, Region: string(name)})
}

// SplitRegion replaces a region by two daughters with new ids.
func (c *Cluster) SplitRegion(name []byte, at []byte, serverA, serverB string) ([]*Region, error) {
	c.mu.Lock()
	defer c.mu.Unlock()
	r := c.regionByNameLocked(name)
	if r == nil {
		return nil, errors.New("no such region")
	}
	if !r.Contains(at) || bytes.Equal(at, r.Start) {
		return nil, errors.New("split point outside region")
	}
	if serverA == "" {
		serverA = r.Server
	}
	if serverB == "" {
		serverB = r.Server
	}
	c.nextID++ // both daughters get the same region id, as in HBase
	a := &Region{Table: r.Table, Start: r.Start, Stop: append([]byte{}, at...), ID: c.nextID, Server: serverA}
	a.Name = RegionName(a.Table, a.Start, a.ID)
	b := &Region{Table: r.Table, Start: append([]byte{}, at...), Stop: r.Stop, ID: c.nextID, Server: serverB}
	b.Name = RegionName(b.Table, b.Start, b.ID)
	var keep []*Region
	for _, x := range c.regions {
		if x != r {
			keep = append(keep, x)
		}
	}
	c.regions = append(keep, a, b)
	c.Log.Add(Event{Kind: "fault", Info: "region-split", Region: string(name), Row: at})
	return []*Region{a, b}, nil
}

// MergeRegions replaces two adjacent regions by one with a new id.
func (c *Cluster) MergeRegions(nameA, nameB []byte, server string) (*Region, error) {
	c.mu.Lock()
	defer c.mu.Unlock()
	a, b := c.regionByNameLocked(nameA), c.regionByNameLocked(nameB)
	if a == nil || b == nil || a.Table != b.Table || !bytes.Equal(a.Stop, b.Start) || len(a.Stop) == 0 {
		return nil, errors.New("regions not adjacent")
	}
	if server == "" {
		server = a.Server
	}
	c.nextID++
	m := &Region{Table: a.Table, Start: a.Start, Stop: b.Stop, ID: c.nextID, Server: server}
	m.Name = RegionName(m.Table, m.Start, m.ID)
	var keep []*Region
	for _, x := range c.regions {
		if x != a && x != b {
			keep = append(keep, x)
		}
	}
	c.regions = append(keep, m)
	c.Log.Add(Event{Kind: "fault", Info: "region-merged", Region: string(nameA) + "+" + string(nameB)})
	return m, nil
}

// ---- ZooKeeper stand-in ----

// ZK implements gohbase's zk.Client against the cluster.
type ZK struct{ c *Cluster }

// ZK returns the ZooKeeper stand-in.
func (c *Cluster) ZK() zk.Client { return &ZK{c} }

// LocateResource answers /hbase/meta-region-server and /hbase/master.
func (z *ZK) LocateResource(res zk.ResourceName) (string, error) {
	c := z.c
	c.mu.Lock()
	block := c.ZKBlock
	errf := c.ZKErr
	meta, master := c.metaAddr, c.masterAddr
	c.mu.Unlock()
	c.Log.Add(Event{Kind: "zk", Info: string(res)})
	if block != nil {
		<-block
	}
	if errf != nil {
		if err := errf(); err != nil {
			return "", err
		}
	}
	switch res {
	case zk.ResourceName("/hbase/meta-region-server"):
		return meta, nil
	case zk.ResourceName("/hbase/master"):
		return master, nil
	}
	return "", fmt.Errorf("zk stand-in: unknown resource %q", res)
}

// ---- Dialer ----

// Dialer returns the function to pass to gohbase.RegionDialer.
func (c *Cluster) Dialer() func(ctx context.Context, network, addr string) (net.Conn, error) {
	return func(ctx context.Context, network, addr string) (net.Conn, error) {
		c.mu.Lock()
		c.dials[addr]++
		n := c.dials[addr]
		s := c.servers[addr]
		if s == nil {
			// name resolution: "host.:port" (absolute form) and "host:port" are the same server
			if h, p, err := net.SplitHostPort(addr); err == nil {
				if strings.HasSuffix(h, ".") {
					s = c.servers[net.JoinHostPort(strings.TrimSuffix(h, "."), p)]
				} else {
					s = c.servers[net.JoinHostPort(h+".", p)]
				}
			}
		}
		fault, delay, wrap := c.DialFault, c.DialDelay, c.WrapConn
		c.mu.Unlock()
		c.Log.Add(Event{Kind: "dial", Server: addr, N: int64(n)})
		if delay != nil {
			if d := delay(addr, n); d > 0 {
				select {
				case <-time.After(d):
				case <-ctx.Done():
					c.Log.Add(Event{Kind: "dial-fail", Server: addr, N: int64(n), Info: ctx.Err().Error()})
					return nil, ctx.Err()
				}
			}
		}
		if fault != nil {
			if err := fault(addr, n); err != nil {
				c.Log.Add(Event{Kind: "dial-fail", Server: addr, N: int64(n), Info: err.Error()})
				return nil, err
			}
		}
		if s == nil || s.isDown() {
			err := fmt.Errorf("dial tcp %s: connect: connection refused", addr)
			c.Log.Add(Event{Kind: "dial-fail", Server: addr, N: int64(n), Info: err.Error()})
			return nil, err
		}
		var d net.Dialer
		conn, err := d.DialContext(ctx, "tcp", s.ln.Addr().String())
		if err != nil {
			c.Log.Add(Event{Kind: "dial-fail", Server: addr, N: int64(n), Info: err.Error()})
			return nil, err
		}
		c.Log.Add(Event{Kind: "dial-ok", Server: addr, N: int64(n), Info: conn.LocalAddr().String()})
		if wrap != nil {
			return wrap(addr, conn), nil
		}
		return conn, nil
	}
}

// DialCount returns how often addr was dialled.
func (c *Cluster) DialCount(addr string) int {
	c.mu.Lock()
	defer c.mu.Unlock()
	return c.dials[addr]
}

var connIDs int64

func nextConnID() int64 { return atomic.AddInt64(&connIDs, 1) }

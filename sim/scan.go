package sim

import (
	"bytes"
	"fmt"
	"sort"

	"github.com/tsuna/gohbase/pb"
	"google.golang.org/protobuf/proto"
)

type scanRow struct {
	row   []byte
	cells []Cell
}

type scannerState struct {
	id         uint64
	server     string
	regionName []byte
	table      string
	rows       []scanRow // remaining rows in scan order
	fragOff    int       // cells of rows[0] already sent as partial fragments
	lastRegion bool      // this region is the last one the scan range touches
	opID       string
	heartbeats int
	closed     bool
}

// ScanCtx is what a chunking policy sees.
type ScanCtx struct {
	Remaining     int  // rows left in this region scanner
	Limit         int  // number_of_rows of the request
	NextRowCells  int  // cells left of the first remaining row
	InFragment    bool // the first remaining row has already been partially sent
	LastRegion    bool
	Heartbeats    int // consecutive heartbeats already sent
	AllowPartials bool
	Rand          func(n int) int
}

// ScanChunk is a policy's decision for one response.
type ScanChunk struct {
	Rows             int   // complete rows (or completing fragments) to send
	SplitFirst       []int // if non-empty: send the first row as fragments of these sizes inside this response
	TrailingCells    int   // additionally send this many cells of the next row as a partial fragment (0 = none)
	Heartbeat        bool  // send nothing, more_results_in_region = true
	EndRegionLater   bool  // do not announce the end of the region in the response that carries its last row
	MoreResultsFalse bool  // if the scan is complete after this region's last row, say more_results=false
	// MarkLastPartial flags the last complete row of this response as partial
	// although nothing of it is left (HBase does that when a size limit is hit
	// exactly at the end of a row: "may have more cells in row").
	MarkLastPartial bool
	// HeartbeatFlag sets heartbeat_message on a response that carries results
	// (HBase does that when the time limit is hit after something was collected).
	HeartbeatFlag bool
	// EmptyFragment inserts a fragment without cells (cells_per_result 0,
	// partial) after the first fragment of a row split by SplitFirst.
	EmptyFragment bool
}

// DefaultScanPolicy draws a chunking at random.
func DefaultScanPolicy(x *ScanCtx) ScanChunk {
	var ch ScanChunk
	if x.Remaining > 0 && x.Heartbeats < 2 && !x.InFragment && x.Rand(8) == 0 {
		ch.Heartbeat = true
		return ch
	}
	max := x.Remaining
	if x.Limit > 0 && x.Limit < max {
		max = x.Limit
	}
	if max > 0 {
		ch.Rows = 1 + x.Rand(max)
		if x.Rand(4) == 0 {
			ch.Rows = max
		}
	}
	if x.AllowPartials && x.Rand(3) == 0 && ch.Rows < x.Remaining+0 {
		// leave a fragment of the following row at the end
		ch.TrailingCells = 1
	}
	if x.AllowPartials && ch.Rows > 0 && x.NextRowCells > 1 && x.Rand(3) == 0 {
		a := 1 + x.Rand(x.NextRowCells-1)
		ch.SplitFirst = []int{a, x.NextRowCells - a}
		ch.EmptyFragment = x.Rand(3) == 0
	}
	ch.EndRegionLater = x.Rand(3) == 0
	ch.MoreResultsFalse = x.Rand(2) == 0
	ch.MarkLastPartial = x.AllowPartials && ch.TrailingCells == 0 && x.Rand(5) == 0
	ch.HeartbeatFlag = x.Rand(6) == 0
	return ch
}

func (c *Cluster) metaCells(r *Region) []Cell {
	ns, q := "default", r.Table
	if i := bytes.IndexByte([]byte(r.Table), ':'); i >= 0 {
		ns, q = r.Table[:i], r.Table[i+1:]
	}
	ri := &pb.RegionInfo{RegionId: proto.Uint64(r.ID), TableName: &pb.TableName{Namespace: []byte(ns), Qualifier: []byte(q)},
		StartKey: r.Start, EndKey: r.Stop, Offline: proto.Bool(r.MetaOffline), Split: proto.Bool(false)}
	body, _ := proto.Marshal(ri)
	info := []byte("info")
	if r.MetaReplicaOnly != "" {
		// no location for the region itself (an empty info:server for odd ids, none
		// for even ones), only the columns of replica 1
		cells := []Cell{{Row: r.Name, Family: info, Qualifier: []byte("regioninfo"), TS: r.ID, Type: TypePut, Value: append([]byte("PBUF"), body...)}}
		cells = append(cells, Cell{Row: r.Name, Family: info, Qualifier: []byte("seqnumDuringOpen_0001"), TS: r.ID, Type: TypePut, Value: []byte{0, 0, 0, 0, 0, 0, 0, 2}})
		if len(r.Name)%2 == 1 {
			cells = append(cells, Cell{Row: r.Name, Family: info, Qualifier: []byte("server"), TS: r.ID, Type: TypePut, Value: []byte{}})
		}
		cells = append(cells,
			Cell{Row: r.Name, Family: info, Qualifier: []byte("server_0001"), TS: r.ID, Type: TypePut, Value: []byte(r.MetaReplicaOnly)},
			Cell{Row: r.Name, Family: info, Qualifier: []byte("serverstartcode_0001"), TS: r.ID, Type: TypePut, Value: []byte{0, 0, 1, 0x5c, 0, 0, 0, 1}})
		return cells
	}
	return []Cell{
		{Row: r.Name, Family: info, Qualifier: []byte("regioninfo"), TS: r.ID, Type: TypePut, Value: append([]byte("PBUF"), body...)},
		{Row: r.Name, Family: info, Qualifier: []byte("seqnumDuringOpen"), TS: r.ID, Type: TypePut, Value: []byte{0, 0, 0, 0, 0, 0, 0, 2}},
		{Row: r.Name, Family: info, Qualifier: []byte("server"), TS: r.ID, Type: TypePut, Value: []byte(r.Server)},
		{Row: r.Name, Family: info, Qualifier: []byte("serverstartcode"), TS: r.ID, Type: TypePut, Value: []byte{0, 0, 1, 0x5c, 0, 0, 0, 1}},
	}
}

// MetaRowFor exposes the meta row cells of a region (for hostile variants).
func (c *Cluster) MetaRowFor(r *Region) []Cell { return c.metaCells(r) }

// metaRows answers a scan of hbase:meta semantically (never by byte order of names).
func (c *Cluster) metaRowsLocked(s *pb.Scan) (rows []scanRow, table string, key []byte, kind string) {
	start, stop := s.StartRow, s.StopRow
	if s.GetReversed() {
		// lookup: start = table,key,:  stop = table
		if !bytes.HasSuffix(start, []byte(",:")) {
			return nil, "", nil, "unsupported-meta-scan"
		}
		i := bytes.IndexByte(start, ',')
		table = string(start[:i])
		key = start[i+1 : len(start)-2]
		if string(stop) != table {
			return nil, table, key, "unsupported-meta-scan"
		}
		var best *Region
		for _, r := range c.regionsLocked(table) {
			if r.NotInMeta {
				continue
			}
			if bytes.Compare(r.Start, key) <= 0 {
				if best == nil || bytes.Compare(r.Start, best.Start) > 0 || (bytes.Equal(r.Start, best.Start) && r.ID > best.ID) {
					best = r
				}
			}
		}
		if best != nil {
			rows = append(rows, scanRow{best.Name, c.metaCells(best)})
		}
		return rows, table, key, "lookup"
	}
	// all regions of a table: start = table, stop = table + "."
	table = string(start)
	if string(stop) != table+"." {
		return nil, table, nil, "unsupported-meta-scan"
	}
	// hbase:meta orders rows by table name first: the range [table, table+".")
	// also holds the rows of every table whose name extends `table` with bytes
	// below '.', i.e. "table-..." (a real server returns those as well)
	names := map[string]bool{}
	for _, r := range c.regions {
		if r.Table >= table && r.Table < table+"." {
			names[r.Table] = true
		}
	}
	var ts []string
	for t := range names {
		ts = append(ts, t)
	}
	sort.Strings(ts)
	for _, t := range ts {
		for _, r := range c.regionsLocked(t) {
			if r.NotInMeta {
				continue
			}
			rows = append(rows, scanRow{r.Name, c.metaCells(r)})
		}
	}
	return rows, table, nil, "all-regions"
}

func (c *Cluster) handleScan(req *Request) *Reply {
	s := req.Scan
	c.mu.Lock()
	defer c.mu.Unlock()
	var st *scannerState
	if s.ScannerId != nil {
		st = c.scanners[s.GetScannerId()]
		if st == nil || st.server != req.Server {
			c.Log.Add(Event{Kind: "exec-fault", Server: req.Server, Conn: req.Conn.ID, CallID: req.CallID, Method: "Scan",
				N: int64(s.GetScannerId()), Info: ExcUnknownScanner})
			return &Reply{Exc: &Exc{Class: ExcUnknownScanner, Stack: fmt.Sprintf("%s: scanner %d", ExcUnknownScanner, s.GetScannerId())}}
		}
		if s.GetRenew() {
			c.Log.Add(Event{Kind: "scanner-renew", Server: req.Server, Conn: req.Conn.ID, CallID: req.CallID, N: int64(st.id), OpID: st.opID})
			return &Reply{Msg: &pb.ScanResponse{ScannerId: proto.Uint64(st.id), MoreResults: proto.Bool(true),
				MoreResultsInRegion: proto.Bool(true), Ttl: proto.Uint32(60000)}}
		}
	} else {
		if s.Scan == nil || s.Region == nil {
			return &Reply{Exc: &Exc{Class: ExcDoNotRetry, Stack: ExcDoNotRetry + ": scan without scan spec"}}
		}
		reg, e := c.routeLocked(req.Server, s.Region.Value)
		if e != nil {
			c.Log.Add(Event{Kind: "exec-fault", Server: req.Server, Conn: req.Conn.ID, CallID: req.CallID, Method: "Scan",
				Region: string(s.Region.Value), Row: s.Scan.StartRow, Info: e.Class})
			return &Reply{Exc: e}
		}
		c.nextScan++
		id := c.nextScan
		if c.ZeroScannerID && reg.Table != "hbase:meta" {
			c.ZeroScannerID = false
			c.nextScan--
			id = 0
		}
		st = &scannerState{id: id, server: req.Server, regionName: reg.Name, table: reg.Table}
		for _, a := range s.Scan.Attribute {
			if a.GetName() == "opid" {
				st.opID = string(a.Value)
			}
		}
		if reg.Table == "hbase:meta" {
			rows, table, key, kind := c.metaRowsLocked(s.Scan)
			st.rows = rows
			st.lastRegion = true
			c.Log.Add(Event{Kind: "meta-lookup", Server: req.Server, Conn: req.Conn.ID, CallID: req.CallID, Table: table, Row: key, Info: kind, N: int64(len(rows))})
		} else {
			st.rows, st.lastRegion = c.scanRowsLocked(reg, s.Scan)
		}
		c.scanners[st.id] = st
		c.Log.Add(Event{Kind: "scanner-open", Server: req.Server, Conn: req.Conn.ID, CallID: req.CallID, N: int64(st.id),
			Region: string(reg.Name), Table: reg.Table, Row: s.Scan.StartRow, OpID: st.opID,
			Info: fmt.Sprintf("rows=%d reversed=%v last=%v", len(st.rows), s.Scan.GetReversed(), st.lastRegion)})
	}
	closeScanner := func(why string) {
		if !st.closed {
			st.closed = true
			delete(c.scanners, st.id)
			c.Log.Add(Event{Kind: "scanner-close", Server: req.Server, Conn: req.Conn.ID, CallID: req.CallID, N: int64(st.id), OpID: st.opID, Info: why})
		}
	}
	resp := &pb.ScanResponse{ScannerId: proto.Uint64(st.id), MoreResults: proto.Bool(true), MoreResultsInRegion: proto.Bool(true), Ttl: proto.Uint32(60000)}
	limit := int(s.GetNumberOfRows())
	if s.GetCloseScanner() && s.ScannerId != nil {
		closeScanner("close-request")
		resp.MoreResults = proto.Bool(false)
		resp.MoreResultsInRegion = nil
		return &Reply{Msg: resp}
	}
	// assemble results
	type result struct {
		cells   []Cell
		partial bool
	}
	var results []result
	policy := c.ScanPolicy
	if policy == nil || st.table == "hbase:meta" {
		policy = func(x *ScanCtx) ScanChunk {
			n := x.Remaining
			if x.Limit > 0 && x.Limit < n {
				n = x.Limit
			}
			return ScanChunk{Rows: n}
		}
	}
	x := &ScanCtx{Remaining: len(st.rows), Limit: limit, LastRegion: st.lastRegion, Heartbeats: st.heartbeats,
		AllowPartials: s.GetClientHandlesPartials(), InFragment: st.fragOff > 0, Rand: c.rng.Intn}
	if len(st.rows) > 0 {
		x.NextRowCells = len(st.rows[0].cells) - st.fragOff
	}
	ch := policy(x)
	if limit > 0 && ch.Rows > limit {
		ch.Rows = limit
	}
	if ch.Heartbeat && len(st.rows) > 0 {
		st.heartbeats++
		resp.HeartbeatMessage = proto.Bool(true)
		c.Log.Add(Event{Kind: "scan-reply", Server: req.Server, Conn: req.Conn.ID, CallID: req.CallID, N: int64(st.id), OpID: st.opID, Info: "heartbeat"})
		if s.GetCloseScanner() {
			closeScanner("open-and-close")
		}
		return &Reply{Msg: resp}
	}
	st.heartbeats = 0
	for i := 0; i < ch.Rows && len(st.rows) > 0; i++ {
		r := st.rows[0]
		cells := r.cells[st.fragOff:]
		if i == 0 && len(ch.SplitFirst) > 1 && st.fragOff == 0 && x.AllowPartials {
			off := 0
			for k, n := range ch.SplitFirst {
				if off+n > len(cells) || n <= 0 {
					break
				}
				last := k == len(ch.SplitFirst)-1
				if last {
					n = len(cells) - off
				}
				results = append(results, result{cells[off : off+n], !last})
				if k == 0 && !last && ch.EmptyFragment {
					results = append(results, result{nil, true})
				}
				off += n
			}
			if off < len(cells) {
				results = append(results, result{cells[off:], false})
			}
		} else {
			results = append(results, result{cells, false})
		}
		st.rows = st.rows[1:]
		st.fragOff = 0
	}
	if ch.TrailingCells > 0 && x.AllowPartials && len(st.rows) > 0 {
		r := st.rows[0]
		left := len(r.cells) - st.fragOff
		if left > 1 {
			n := ch.TrailingCells
			if n >= left {
				n = left - 1
			}
			results = append(results, result{r.cells[st.fragOff : st.fragOff+n], true})
			st.fragOff += n
		}
	}
	if ch.MarkLastPartial && x.AllowPartials && len(results) > 0 && st.fragOff == 0 {
		results[len(results)-1].partial = true
	}
	var cells []Cell
	for _, r := range results {
		if c.PBResults {
			pr := &pb.Result{Partial: proto.Bool(r.partial)}
			for _, cl := range r.cells {
				pr.Cell = append(pr.Cell, &pb.Cell{Row: cl.Row, Family: cl.Family, Qualifier: cl.Qualifier,
					Timestamp: proto.Uint64(cl.TS), CellType: pb.CellType(cl.Type).Enum(), Value: cl.Value})
			}
			resp.Results = append(resp.Results, pr)
		} else {
			resp.CellsPerResult = append(resp.CellsPerResult, uint32(len(r.cells)))
			resp.PartialFlagPerResult = append(resp.PartialFlagPerResult, r.partial)
			cells = append(cells, r.cells...)
		}
	}
	nPartial := 0
	for _, r := range results {
		if r.partial {
			nPartial++
		}
	}
	nCells := 0
	for _, r := range results {
		nCells += len(r.cells)
	}
	info := fmt.Sprintf("results=%d partials=%d cells=%d", len(results), nPartial, nCells)
	if ch.HeartbeatFlag && len(results) > 0 {
		resp.HeartbeatMessage = proto.Bool(true)
		info += " heartbeat-with-results"
	}
	if s.GetTrackScanMetrics() {
		resp.ScanMetrics = &pb.ScanMetrics{Metrics: []*pb.NameInt64Pair{
			{Name: proto.String("ROWS_SCANNED"), Value: proto.Int64(int64(len(results)))},
			{Name: proto.String("ROWS_FILTERED"), Value: proto.Int64(0)}}}
	}
	if len(st.rows) == 0 && !(ch.EndRegionLater && len(results) > 0) {
		resp.MoreResultsInRegion = proto.Bool(false)
		why := "exhausted-region"
		if st.lastRegion && ch.MoreResultsFalse {
			resp.MoreResults = proto.Bool(false)
			why = "more-results-false"
		}
		closeScanner(why)
		info += " end-of-region"
	}
	if f := c.ForceNoMoreResults; f != nil && (!st.closed || (len(st.rows) == 0 && !st.lastRegion)) && st.table != "hbase:meta" && st.fragOff == 0 {
		c.mu.Unlock()
		force := f(req)
		c.mu.Lock()
		if force {
			// the server ends the scan (limit / filter) while this region scanner
			// still has rows: it stays open until the client closes it. Or it ends
			// the scan with the last row of a region that is not the last in range
			// (more_results=false together with more_results_in_region=false)
			resp.MoreResults = proto.Bool(false)
			info += " forced-no-more-results"
		}
	}
	if s.GetCloseScanner() {
		closeScanner("open-and-close")
	}
	c.Log.Add(Event{Kind: "scan-reply", Server: req.Server, Conn: req.Conn.ID, CallID: req.CallID, N: int64(st.id), OpID: st.opID, Info: info})
	return &Reply{Msg: resp, Cells: cells}
}

// scanRowsLocked snapshots the rows a region scanner will return.
func (c *Cluster) scanRowsLocked(reg *Region, s *pb.Scan) (rows []scanRow, last bool) {
	td := c.tables[reg.Table]
	rev := s.GetReversed()
	start, stop := s.StartRow, s.StopRow
	// HBase treats a scan whose start row equals its (non-empty) stop row, sent
	// by a client that does not know include_stop_row, as a Get of that row
	// (Scan.isGetScan in 1.x, ProtobufUtil.toScan in 2.x).
	isGet := len(start) > 0 && bytes.Equal(start, stop)
	if td != nil {
		for k, rd := range td.rows {
			row := []byte(k)
			if !reg.Contains(row) || len(rd.cells) == 0 {
				continue
			}
			if isGet {
				if !bytes.Equal(row, start) {
					continue
				}
			} else if !rev {
				if bytes.Compare(row, start) < 0 || (len(stop) > 0 && bytes.Compare(row, stop) >= 0) {
					continue
				}
			} else {
				if (len(start) > 0 && bytes.Compare(row, start) > 0) || (len(stop) > 0 && bytes.Compare(row, stop) <= 0) {
					continue
				}
			}
			var cells []Cell
			for _, cl := range rd.sorted() {
				if matchColumns(s.Column, cl) {
					cells = append(cells, cl)
				}
			}
			if len(cells) > 0 {
				rows = append(rows, scanRow{row, cells})
			}
		}
	}
	sort.Slice(rows, func(i, j int) bool {
		if rev {
			return bytes.Compare(rows[i].row, rows[j].row) > 0
		}
		return bytes.Compare(rows[i].row, rows[j].row) < 0
	})
	if !rev {
		last = len(reg.Stop) == 0 || (len(stop) > 0 && bytes.Compare(stop, reg.Stop) <= 0)
	} else {
		last = len(reg.Start) == 0 || (len(stop) > 0 && bytes.Compare(stop, reg.Start) >= 0)
	}
	return rows, last
}

// OpenScanners returns the ids of scanners currently open on the servers.
func (c *Cluster) OpenScanners() []uint64 {
	c.mu.Lock()
	defer c.mu.Unlock()
	var out []uint64
	for id := range c.scanners {
		out = append(out, id)
	}
	sort.Slice(out, func(i, j int) bool { return out[i] < out[j] })
	return out
}

// ScannerOpID returns the operation id of the scan an open scanner belongs to.
func (c *Cluster) ScannerOpID(id uint64) string {
	c.mu.Lock()
	defer c.mu.Unlock()
	if st := c.scanners[id]; st != nil {
		return st.opID
	}
	return ""
}

// ScanOpID returns the operation id a scan request belongs to ("" if none).
func (c *Cluster) ScanOpID(req *Request) string {
	if req.Scan == nil {
		return ""
	}
	if req.Scan.Scan != nil {
		for _, a := range req.Scan.Scan.Attribute {
			if a.GetName() == "opid" {
				return string(a.Value)
			}
		}
		return ""
	}
	return c.ScannerOpID(req.Scan.GetScannerId())
}

// OpenScannersFor returns the open scanners that belong to a scan operation.
func (c *Cluster) OpenScannersFor(opid string) []uint64 {
	c.mu.Lock()
	defer c.mu.Unlock()
	var out []uint64
	for id, st := range c.scanners {
		if st.opID == opid {
			out = append(out, id)
		}
	}
	return out
}

package sim

import (
	"encoding/binary"
	"errors"
	"fmt"

	"github.com/golang/snappy"
)

// Independent implementation of Hadoop's BlockCompressorStream /
// BlockDecompressorStream framing with snappy block compression:
//
//	stream := block*
//	block  := uint32 uncompressedLen, chunk+   (chunks until uncompressedLen bytes were produced)
//	chunk  := uint32 compressedLen, snappy-block
//
// SnappyChunk is the largest uncompressed chunk Hadoop's SnappyCodec produces
// with its default 256 KiB buffer.
const SnappyChunk = 256*1024*5/6 - 32 // 218421

// BlockSpec describes one block as a list of uncompressed chunk sizes.
type BlockSpec []int

// CompressStream encodes payload as the given blocks/chunks. The sizes must
// add up to len(payload).
func CompressStream(payload []byte, blocks []BlockSpec) []byte {
	var out []byte
	var u32 [4]byte
	off := 0
	for _, blk := range blocks {
		total := 0
		for _, n := range blk {
			total += n
		}
		binary.BigEndian.PutUint32(u32[:], uint32(total))
		out = append(out, u32[:]...)
		for _, n := range blk {
			enc := snappy.Encode(nil, payload[off:off+n])
			off += n
			binary.BigEndian.PutUint32(u32[:], uint32(len(enc)))
			out = append(out, u32[:]...)
			out = append(out, enc...)
		}
	}
	if off != len(payload) {
		panic("CompressStream: block sizes do not add up")
	}
	return out
}

// StreamLayout describes where the framing fields of a stream are.
type StreamLayout struct {
	Blocks       int
	Chunks       int
	MaxChunk     int   // largest uncompressed chunk
	TotalLenOffs []int // offsets of the 4-byte block length fields
	ChunkLenOffs []int // offsets of the 4-byte chunk length fields
	BodyRanges   [][2]int
}

// Region classifies a byte offset of the stream.
func (l *StreamLayout) Region(off int) string {
	for _, o := range l.TotalLenOffs {
		if off >= o && off < o+4 {
			return "total-length"
		}
	}
	for _, o := range l.ChunkLenOffs {
		if off >= o && off < o+4 {
			return "chunk-length"
		}
	}
	return "chunk-body"
}

// BodyChunk returns the index of the chunk body containing off, or -1.
func (l *StreamLayout) BodyChunk(off int) int {
	for i, r := range l.BodyRanges {
		if off >= r[0] && off < r[1] {
			return i
		}
	}
	return -1
}

// DecompressStream decodes a block-compressed stream strictly.
func DecompressStream(b []byte) ([]byte, *StreamLayout, error) {
	var out []byte
	lay := &StreamLayout{}
	pos := 0
	for pos < len(b) {
		if len(b)-pos < 4 {
			return nil, lay, errors.New("blockstream: truncated block length")
		}
		total := int(binary.BigEndian.Uint32(b[pos:]))
		lay.TotalLenOffs = append(lay.TotalLenOffs, pos)
		pos += 4
		lay.Blocks++
		got := 0
		for got < total {
			if len(b)-pos < 4 {
				return nil, lay, errors.New("blockstream: truncated chunk length")
			}
			cl := int(binary.BigEndian.Uint32(b[pos:]))
			lay.ChunkLenOffs = append(lay.ChunkLenOffs, pos)
			pos += 4
			if cl > len(b)-pos {
				return nil, lay, fmt.Errorf("blockstream: chunk of %d bytes exceeds remaining %d", cl, len(b)-pos)
			}
			dec, err := snappy.Decode(nil, b[pos:pos+cl])
			if err != nil {
				return nil, lay, fmt.Errorf("blockstream: snappy: %v", err)
			}
			lay.BodyRanges = append(lay.BodyRanges, [2]int{pos, pos + cl})
			pos += cl
			lay.Chunks++
			if len(dec) > lay.MaxChunk {
				lay.MaxChunk = len(dec)
			}
			got += len(dec)
			out = append(out, dec...)
		}
		if got != total {
			return nil, lay, fmt.Errorf("blockstream: block announced %d bytes, chunks hold %d", total, got)
		}
	}
	return out, lay, nil
}

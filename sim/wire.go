package sim

import (
	"encoding/binary"
	"errors"
	"fmt"
	"io"

	"github.com/tsuna/gohbase/pb"
	"google.golang.org/protobuf/encoding/protowire"
	"google.golang.org/protobuf/proto"
)

// Independent framing of the HBase RPC protocol (written from the protocol
// description, not from gohbase's framing code):
//
//	connection: "HBas" 0x00 0x50, uint32 len, ConnectionHeader
//	request   : uint32 total, varint hlen, RequestHeader, varint plen, param, cellblock
//	response  : uint32 total, varint hlen, ResponseHeader, varint rlen, response, cellblock

// Preamble is the expected connection preamble (version 0, simple auth).
var Preamble = []byte{'H', 'B', 'a', 's', 0x00, 0x50}

// BuildResponseFrame builds a complete response frame. msg may be nil (as for
// a header-level exception).
func BuildResponseFrame(hdr *pb.ResponseHeader, msg proto.Message, cellblock []byte) []byte {
	hb, err := proto.MarshalOptions{AllowPartial: true}.Marshal(hdr)
	if err != nil {
		panic(err)
	}
	var body []byte
	body = protowire.AppendVarint(body, uint64(len(hb)))
	body = append(body, hb...)
	if msg != nil {
		mb, err := proto.MarshalOptions{AllowPartial: true}.Marshal(msg)
		if err != nil {
			panic(err)
		}
		body = protowire.AppendVarint(body, uint64(len(mb)))
		body = append(body, mb...)
	}
	body = append(body, cellblock...)
	out := make([]byte, 4, 4+len(body))
	binary.BigEndian.PutUint32(out, uint32(len(body)))
	return append(out, body...)
}

// RawFrame prefixes body with its length.
func RawFrame(body []byte) []byte {
	out := make([]byte, 4, 4+len(body))
	binary.BigEndian.PutUint32(out, uint32(len(body)))
	return append(out, body...)
}

// ReqFrame is a parsed request frame.
type ReqFrame struct {
	Raw       []byte // whole frame body (without the 4-byte length)
	Header    *pb.RequestHeader
	ParamRaw  []byte
	Cellblock []byte
}

// ErrMalformed marks a frame the independent decoder could not parse.
type ErrMalformed struct{ Why string }

func (e ErrMalformed) Error() string { return "malformed frame: " + e.Why }

// ReadPreamble reads and checks the connection preamble and header.
func ReadPreamble(r io.Reader) (*pb.ConnectionHeader, error) {
	var pre [6]byte
	if _, err := io.ReadFull(r, pre[:]); err != nil {
		return nil, err
	}
	if string(pre[:]) != string(Preamble) {
		return nil, ErrMalformed{fmt.Sprintf("preamble % x", pre)}
	}
	var l [4]byte
	if _, err := io.ReadFull(r, l[:]); err != nil {
		return nil, err
	}
	n := binary.BigEndian.Uint32(l[:])
	if n > 1<<20 {
		return nil, ErrMalformed{fmt.Sprintf("connection header length %d", n)}
	}
	b := make([]byte, n)
	if _, err := io.ReadFull(r, b); err != nil {
		return nil, err
	}
	ch := &pb.ConnectionHeader{}
	if err := proto.Unmarshal(b, ch); err != nil {
		return nil, ErrMalformed{"connection header: " + err.Error()}
	}
	return ch, nil
}

// MaxFrame is the largest request frame the simulator accepts.
const MaxFrame = 64 << 20

// ReadRequest reads one request frame and splits it.
func ReadRequest(r io.Reader) (*ReqFrame, error) {
	var l [4]byte
	if _, err := io.ReadFull(r, l[:]); err != nil {
		return nil, err
	}
	n := binary.BigEndian.Uint32(l[:])
	if n > MaxFrame {
		return nil, ErrMalformed{fmt.Sprintf("frame length %d", n)}
	}
	b := make([]byte, n)
	if _, err := io.ReadFull(r, b); err != nil {
		if err == io.EOF {
			err = io.ErrUnexpectedEOF
		}
		return nil, err
	}
	return ParseRequest(b)
}

// ParseRequest splits a request frame body.
func ParseRequest(b []byte) (*ReqFrame, error) {
	f := &ReqFrame{Raw: b}
	hl, n := protowire.ConsumeVarint(b)
	if n < 0 {
		return f, ErrMalformed{"header length varint"}
	}
	rest := b[n:]
	if hl > uint64(len(rest)) {
		return f, ErrMalformed{fmt.Sprintf("header length %d > %d", hl, len(rest))}
	}
	f.Header = &pb.RequestHeader{}
	if err := proto.Unmarshal(rest[:hl], f.Header); err != nil {
		return f, ErrMalformed{"request header: " + err.Error()}
	}
	rest = rest[hl:]
	if f.Header.GetRequestParam() {
		pl, n := protowire.ConsumeVarint(rest)
		if n < 0 {
			return f, ErrMalformed{"param length varint"}
		}
		rest = rest[n:]
		if pl > uint64(len(rest)) {
			return f, ErrMalformed{fmt.Sprintf("param length %d > %d", pl, len(rest))}
		}
		f.ParamRaw = rest[:pl]
		rest = rest[pl:]
	}
	var cbl uint32
	if m := f.Header.GetCellBlockMeta(); m != nil {
		cbl = m.GetLength()
	}
	if int(cbl) != len(rest) {
		return f, ErrMalformed{fmt.Sprintf("cell_block_meta.length %d but %d bytes trail the request", cbl, len(rest))}
	}
	f.Cellblock = rest
	return f, nil
}

var errShort = errors.New("short")

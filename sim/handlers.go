package sim

import (
	"bytes"
	"encoding/binary"
	"fmt"
	"hash/fnv"
	"sort"

	"github.com/tsuna/gohbase/pb"
	"google.golang.org/protobuf/proto"
)

// Exception class names.
const (
	ExcNSRE           = "org.apache.hadoop.hbase.NotServingRegionException"
	ExcRegionMoved    = "org.apache.hadoop.hbase.exceptions.RegionMovedException"
	ExcRegionOpening  = "org.apache.hadoop.hbase.exceptions.RegionOpeningException"
	ExcTooBusy        = "org.apache.hadoop.hbase.RegionTooBusyException"
	ExcCallQueue      = "org.apache.hadoop.hbase.CallQueueTooBigException"
	ExcThrottling     = "org.apache.hadoop.hbase.quotas.RpcThrottlingException"
	ExcRetryImm       = "org.apache.hadoop.hbase.RetryImmediatelyException"
	ExcPleaseHold     = "org.apache.hadoop.hbase.PleaseHoldException"
	ExcAborted        = "org.apache.hadoop.hbase.regionserver.RegionServerAbortedException"
	ExcStopped        = "org.apache.hadoop.hbase.regionserver.RegionServerStoppedException"
	ExcMasterStopped  = "org.apache.hadoop.hbase.exceptions.MasterStoppedException"
	ExcNotRunningYet  = "org.apache.hadoop.hbase.ipc.ServerNotRunningYetException"
	ExcWrongRegion    = "org.apache.hadoop.hbase.regionserver.WrongRegionException"
	ExcDoNotRetry     = "org.apache.hadoop.hbase.DoNotRetryIOException"
	ExcNoSuchCF       = "org.apache.hadoop.hbase.regionserver.NoSuchColumnFamilyException"
	ExcUnknownScanner = "org.apache.hadoop.hbase.UnknownScannerException"
	ExcIO             = "java.io.IOException"
)

type rowData struct {
	cells map[string]*Cell // family \x00 qualifier
}

type tableData struct {
	rows map[string]*rowData
}

func ckey(f, q []byte) string { return string(f) + "\x00" + string(q) }

func (rd *rowData) sorted() []Cell {
	out := make([]Cell, 0, len(rd.cells))
	for _, c := range rd.cells {
		out = append(out, *c)
	}
	sort.Slice(out, func(i, j int) bool {
		if c := bytes.Compare(out[i].Family, out[j].Family); c != 0 {
			return c < 0
		}
		return bytes.Compare(out[i].Qualifier, out[j].Qualifier) < 0
	})
	return out
}

// Load stores cells directly (test data set-up).
func (c *Cluster) Load(table string, cells []Cell) {
	c.mu.Lock()
	defer c.mu.Unlock()
	td := c.tables[table]
	if td == nil {
		td = &tableData{rows: map[string]*rowData{}}
		c.tables[table] = td
	}
	for _, cl := range cells {
		rd := td.rows[string(cl.Row)]
		if rd == nil {
			rd = &rowData{cells: map[string]*Cell{}}
			td.rows[string(cl.Row)] = rd
		}
		cp := cl
		rd.cells[ckey(cl.Family, cl.Qualifier)] = &cp
	}
}

// RowCells returns the stored cells of a row (sorted).
func (c *Cluster) RowCells(table string, row []byte) []Cell {
	c.mu.Lock()
	defer c.mu.Unlock()
	td := c.tables[table]
	if td == nil || td.rows[string(row)] == nil {
		return nil
	}
	return td.rows[string(row)].sorted()
}

// Hash32 is the hash the simulator uses for per-operation choices.
func Hash32(s string) uint32 { return hash32(s) }

func hash32(s string) uint32 {
	h := fnv.New32a()
	h.Write([]byte(s))
	return h.Sum32()
}

// EchoCells are the cells the simulator derives from an operation id.
func EchoCells(row []byte, opid string) []Cell {
	n := 1 + int(hash32(opid)%3)
	out := make([]Cell, 0, n+1)
	if hash32(opid+"/q")%4 == 0 {
		// one answer in four starts with the column that has an empty qualifier
		out = append(out, Cell{Row: row, Family: []byte("echo"), Qualifier: []byte{}, TS: 7, Type: TypePut,
			Value: []byte(fmt.Sprintf("ack:%s:%x:-", opid, row))})
	}
	for i := 0; i < n; i++ {
		out = append(out, Cell{Row: row, Family: []byte("echo"), Qualifier: []byte(fmt.Sprintf("%s/%d", opid, i)),
			TS: 7, Type: TypePut, Value: []byte(fmt.Sprintf("ack:%s:%x:%d", opid, row, i))})
	}
	return out
}

func (c *Cluster) handle(req *Request) *Reply {
	if f := c.OnRequest; f != nil {
		if rep := f(req); rep != nil {
			c.Log.Add(Event{Kind: "fault", Server: req.Server, Conn: req.Conn.ID, CallID: req.CallID, Method: req.Method, Info: "on-request " + rep.describe()})
			if rep.DefaultThenKill {
				c.handleDefault(req)
				return &Reply{Drop: true, KillConn: true}
			}
			if rep.HoldDefault != nil {
				d := c.handleDefault(req)
				if d != nil {
					d.Hold = rep.HoldDefault
					d.Delay += rep.Delay
					d.AfterSend = rep.AfterSend
					d.KillConn = d.KillConn || rep.KillConn // answer, then close the connection
				}
				return d
			}
			return rep
		}
	}
	return c.handleDefault(req)
}

func (c *Cluster) handleDefault(req *Request) *Reply {
	switch req.Method {
	case "Get", "Mutate":
		res, cells, processed, exc := c.execAction(req, req.Single)
		if exc != nil {
			return &Reply{Exc: exc}
		}
		if req.Method == "Get" {
			return &Reply{Msg: &pb.GetResponse{Result: res}, Cells: cells}
		}
		return &Reply{Msg: &pb.MutateResponse{Result: res, Processed: processed}, Cells: cells}
	case "Multi":
		return c.handleMulti(req)
	case "Scan":
		return c.handleScan(req)
	}
	return c.handleMaster(req)
}

func (r *Reply) describe() string {
	switch {
	case r.Drop && r.KillConn:
		return "kill-conn"
	case r.Drop:
		return "drop"
	case r.Exc != nil:
		return "exception " + r.Exc.Class
	case r.Raw != nil:
		return fmt.Sprintf("raw %d bytes", len(r.Raw))
	case r.HoldDefault != nil:
		return "hold-reply"
	case r.DefaultThenKill:
		return "execute-then-kill-conn"
	}
	return "custom"
}

// route checks that this server hosts a region with that name.
func (c *Cluster) routeLocked(server string, name []byte) (*Region, *Exc) {
	if bytes.Equal(name, MetaRegionName) {
		if c.metaAddr != server {
			return nil, &Exc{Class: ExcNSRE, Stack: ExcNSRE + ": hbase:meta,,1 is not online on " + server}
		}
		return &Region{Table: "hbase:meta", Name: MetaRegionName, Server: server}, nil
	}
	r := c.regionByNameLocked(name)
	if r == nil || r.Server != server || r.Offline {
		return nil, &Exc{Class: ExcNSRE, Stack: fmt.Sprintf("%s: %s is not online on %s", ExcNSRE, name, server)}
	}
	return r, nil
}

func (c *Cluster) execAction(req *Request, a *Action) (res *pb.Result, cells []Cell, processed *bool, exc *Exc) {
	if f := c.OnAction; f != nil {
		if e := f(req, a); e != nil {
			c.Log.Add(Event{Kind: "exec-fault", Server: req.Server, Conn: req.Conn.ID, CallID: req.CallID, Method: req.Method,
				Region: string(a.Region), Row: a.Row, OpID: a.OpID, Index: a.Index, Info: e.Class})
			return nil, nil, nil, e
		}
	}
	c.mu.Lock()
	defer c.mu.Unlock()
	reg, e := c.routeLocked(req.Server, a.Region)
	if e != nil {
		c.Log.Add(Event{Kind: "exec-fault", Server: req.Server, Conn: req.Conn.ID, CallID: req.CallID, Method: req.Method,
			Region: string(a.Region), Row: a.Row, OpID: a.OpID, Index: a.Index, Info: e.Class})
		return nil, nil, nil, e
	}
	if reg.Table != "hbase:meta" && !reg.Contains(a.Row) {
		kind := "misroute"
		if a.Kind() == "exists" && a.OpID == "" {
			kind = "probe-outside-region" // the client's region probe may fall outside a very short region
		}
		c.Log.Add(Event{Kind: kind, Server: req.Server, Conn: req.Conn.ID, CallID: req.CallID, Method: req.Method,
			Region: string(a.Region), Table: reg.Table, Row: a.Row, OpID: a.OpID, Index: a.Index})
		return nil, nil, nil, &Exc{Class: ExcWrongRegion, Stack: fmt.Sprintf("%s: row %q not in region %s", ExcWrongRegion, a.Row, a.Region)}
	}
	c.Log.Add(Event{Kind: "exec", Server: req.Server, Conn: req.Conn.ID, CallID: req.CallID, Method: req.Method,
		Region: string(a.Region), Table: reg.Table, Row: a.Row, OpID: a.OpID, Index: a.Index, Info: a.Kind()})
	td := c.tables[reg.Table]
	if td == nil {
		td = &tableData{rows: map[string]*rowData{}}
		c.tables[reg.Table] = td
	}
	rd := td.rows[string(a.Row)]
	var out []Cell
	res = &pb.Result{}
	switch a.Kind() {
	case "exists":
		ex := rd != nil && len(rd.cells) > 0
		res.Exists = proto.Bool(ex)
		return res, nil, nil, nil
	case "get":
		echo := false
		for _, col := range a.Get.Column {
			if string(col.Family) == "echo" {
				echo = true
			}
		}
		if echo && a.OpID != "" {
			out = EchoCells(a.Row, a.OpID)
			if hash32(a.OpID)%7 == 0 {
				out = nil // zero-cell results must be handled too
			}
		} else if rd != nil {
			for _, cl := range rd.sorted() {
				if matchColumns(a.Get.Column, cl) {
					out = append(out, cl)
				}
			}
		}
	case "put", "delete", "append", "increment", "checkandput":
		if a.Cond != nil {
			ok := c.checkCondition(rd, a.Cond)
			processed = proto.Bool(ok)
			if !ok {
				return res, nil, processed, nil
			}
		} else {
			processed = proto.Bool(true)
		}
		if rd == nil {
			rd = &rowData{cells: map[string]*Cell{}}
			td.rows[string(a.Row)] = rd
		}
		out = c.applyMutation(rd, a)
		if len(rd.cells) == 0 {
			delete(td.rows, string(a.Row))
		}
		if c.EchoResults && a.OpID != "" && a.Kind() != "increment" {
			out = EchoCells(a.Row, a.OpID)
		}
	}
	if c.PBResults {
		for i := range out {
			cl := out[i]
			res.Cell = append(res.Cell, &pb.Cell{Row: cl.Row, Family: cl.Family, Qualifier: cl.Qualifier,
				Timestamp: proto.Uint64(cl.TS), CellType: pb.CellType(cl.Type).Enum(), Value: cl.Value})
		}
		return res, nil, processed, nil
	}
	res.AssociatedCellCount = proto.Int32(int32(len(out)))
	return res, out, processed, nil
}

func matchColumns(cols []*pb.Column, cl Cell) bool {
	if len(cols) == 0 {
		return true
	}
	for _, col := range cols {
		if !bytes.Equal(col.Family, cl.Family) {
			continue
		}
		if len(col.Qualifier) == 0 {
			return true
		}
		for _, q := range col.Qualifier {
			if bytes.Equal(q, cl.Qualifier) {
				return true
			}
		}
	}
	return false
}

func (c *Cluster) checkCondition(rd *rowData, cond *pb.Condition) bool {
	var cur []byte
	has := false
	if rd != nil {
		if cl := rd.cells[ckey(cond.Family, cond.Qualifier)]; cl != nil {
			cur, has = cl.Value, true
		}
	}
	var want []byte
	if cmp := cond.Comparator; cmp != nil {
		bc := &pb.BinaryComparator{}
		if err := proto.Unmarshal(cmp.SerializedComparator, bc); err == nil && bc.Comparable != nil {
			want = bc.Comparable.Value
		}
	}
	if len(want) == 0 {
		return !has || len(cur) == 0
	}
	return has && bytes.Equal(cur, want)
}

func (c *Cluster) applyMutation(rd *rowData, a *Action) []Cell {
	var out []Cell
	kind := a.Kind()
	if kind == "checkandput" {
		kind = "put"
	}
	if kind == "delete" && len(a.Cells) == 0 {
		for k := range rd.cells {
			delete(rd.cells, k)
		}
		return nil
	}
	for _, cl := range a.Cells {
		ts := cl.TS
		if ts == LatestTimestamp {
			c.clock++
			ts = c.clock
		}
		key := ckey(cl.Family, cl.Qualifier)
		switch kind {
		case "put":
			rd.cells[key] = &Cell{Row: a.Row, Family: cl.Family, Qualifier: cl.Qualifier, TS: ts, Type: TypePut, Value: cl.Value}
		case "delete":
			switch cl.Type {
			case TypeDeleteFamily, TypeDeleteFamilyVersion:
				for k, v := range rd.cells {
					if bytes.Equal(v.Family, cl.Family) {
						delete(rd.cells, k)
					}
				}
			default:
				delete(rd.cells, key)
			}
		case "append":
			var old []byte
			if o := rd.cells[key]; o != nil {
				old = o.Value
			}
			nv := append(append([]byte{}, old...), cl.Value...)
			n := &Cell{Row: a.Row, Family: cl.Family, Qualifier: cl.Qualifier, TS: ts, Type: TypePut, Value: nv}
			rd.cells[key] = n
			out = append(out, *n)
		case "increment":
			var old uint64
			if o := rd.cells[key]; o != nil && len(o.Value) == 8 {
				old = binary.BigEndian.Uint64(o.Value)
			}
			var d uint64
			if len(cl.Value) == 8 {
				d = binary.BigEndian.Uint64(cl.Value)
			}
			nv := make([]byte, 8)
			binary.BigEndian.PutUint64(nv, old+d)
			n := &Cell{Row: a.Row, Family: cl.Family, Qualifier: cl.Qualifier, TS: ts, Type: TypePut, Value: nv}
			rd.cells[key] = n
			out = append(out, *n)
		}
	}
	return out
}

func excPair(e *Exc) *pb.NameBytesPair {
	return &pb.NameBytesPair{Name: proto.String(e.Class), Value: []byte(e.stack())}
}

func (c *Cluster) handleMulti(req *Request) *Reply {
	resp := &pb.MultiResponse{}
	var allCells []Cell
	for _, ra := range req.Multi {
		rar := &pb.RegionActionResult{}
		resp.RegionActionResult = append(resp.RegionActionResult, rar)
		if f := c.OnRegionAction; f != nil {
			if e := f(req, ra.Region); e != nil {
				for _, a := range ra.Actions {
					c.Log.Add(Event{Kind: "exec-fault", Server: req.Server, Conn: req.Conn.ID, CallID: req.CallID, Method: "Multi",
						Region: string(ra.Region), Row: a.Row, OpID: a.OpID, Index: a.Index, Info: "region-level " + e.Class})
				}
				rar.Exception = excPair(e)
				continue
			}
		}
		c.mu.Lock()
		_, e := c.routeLocked(req.Server, ra.Region)
		c.mu.Unlock()
		if e != nil {
			for _, a := range ra.Actions {
				c.Log.Add(Event{Kind: "exec-fault", Server: req.Server, Conn: req.Conn.ID, CallID: req.CallID, Method: "Multi",
					Region: string(ra.Region), Row: a.Row, OpID: a.OpID, Index: a.Index, Info: e.Class})
			}
			rar.Exception = excPair(e)
			continue
		}
		type one struct {
			roe   *pb.ResultOrException
			cells []Cell
		}
		var ones []one
		for _, a := range ra.Actions {
			res, cells, _, exc := c.execAction(req, a)
			if exc != nil && exc.Omit {
				continue // a response that leaves this action out
			}
			roe := &pb.ResultOrException{Index: proto.Uint32(a.Index)}
			if exc != nil {
				roe.Exception = excPair(exc)
			} else {
				roe.Result = res
			}
			ones = append(ones, one{roe, cells})
		}
		c.mu.Lock()
		if c.PermuteMulti {
			c.rng.Shuffle(len(ones), func(i, j int) { ones[i], ones[j] = ones[j], ones[i] })
		}
		if c.ReverseMulti {
			for i, j := 0, len(ones)-1; i < j; i, j = i+1, j-1 {
				ones[i], ones[j] = ones[j], ones[i]
			}
		}
		c.mu.Unlock()
		for _, o := range ones {
			rar.ResultOrException = append(rar.ResultOrException, o.roe)
			allCells = append(allCells, o.cells...)
		}
	}
	return &Reply{Msg: resp, Cells: allCells}
}

func (c *Cluster) handleMaster(req *Request) *Reply {
	c.mu.Lock()
	active := c.masterAddr == req.Server
	c.mu.Unlock()
	if req.Conn.Header.GetServiceName() != "MasterService" {
		return &Reply{Exc: &Exc{Class: ExcDoNotRetry, Stack: ExcDoNotRetry + ": unknown method " + req.Method}}
	}
	if !active {
		return &Reply{Exc: &Exc{Class: ExcMasterStopped}}
	}
	c.Log.Add(Event{Kind: "exec", Server: req.Server, Conn: req.Conn.ID, CallID: req.CallID, Method: req.Method, Info: "master"})
	switch req.Method {
	case "GetClusterStatus":
		return &Reply{Msg: &pb.GetClusterStatusResponse{ClusterStatus: &pb.ClusterStatus{
			Master: &pb.ServerName{HostName: proto.String("master"), Port: proto.Uint32(16000)}}}}
	case "GetTableNames":
		resp := &pb.GetTableNamesResponse{}
		c.mu.Lock()
		var names []string
		for t := range c.tables {
			names = append(names, t)
		}
		c.mu.Unlock()
		sort.Strings(names)
		for _, t := range names {
			resp.TableNames = append(resp.TableNames, &pb.TableName{Namespace: []byte("default"), Qualifier: []byte(t)})
		}
		return &Reply{Msg: resp}
	case "CreateTable":
		return &Reply{Msg: &pb.CreateTableResponse{ProcId: proto.Uint64(11)}}
	case "DeleteTable":
		return &Reply{Msg: &pb.DeleteTableResponse{ProcId: proto.Uint64(12)}}
	case "getProcedureResult":
		return &Reply{Msg: &pb.GetProcedureResultResponse{State: pb.GetProcedureResultResponse_FINISHED.Enum()}}
	}
	return &Reply{Exc: &Exc{Class: ExcDoNotRetry, Stack: ExcDoNotRetry + ": unsupported master method " + req.Method}}
}

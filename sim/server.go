package sim

import (
	"bufio"
	"fmt"
	"net"
	"sync"
	"time"

	"github.com/tsuna/gohbase/pb"
	"google.golang.org/protobuf/proto"
)

// Server is one simulated regionserver (or master).
type Server struct {
	c     *Cluster
	Addr  string
	ln    net.Listener
	mu    sync.Mutex
	conns map[*ServerConn]struct{}
	down  bool
	stall chan struct{}
}

// SetStall makes the server stop reading from its connections until the
// channel is closed (nil = read normally): a server that is alive but busy.
func (s *Server) SetStall(ch chan struct{}) {
	s.mu.Lock()
	s.stall = ch
	s.mu.Unlock()
}

func (s *Server) stallCh() chan struct{} {
	s.mu.Lock()
	defer s.mu.Unlock()
	return s.stall
}

// ServerConn is one accepted connection.
type ServerConn struct {
	ID         int64
	S          *Server
	conn       net.Conn
	wmu        sync.Mutex
	Header     *pb.ConnectionHeader
	Compressed bool
	callIDs    map[uint32]bool
	closed     bool
	Frames     int64
}

func (s *Server) isDown() bool {
	s.mu.Lock()
	defer s.mu.Unlock()
	return s.down
}

// SetDown makes the server refuse new connections (and optionally drop existing ones).
func (s *Server) SetDown(down bool) {
	s.mu.Lock()
	s.down = down
	s.mu.Unlock()
	s.c.Log.Add(Event{Kind: "fault", Info: fmt.Sprintf("server-down=%v", down), Server: s.Addr})
}

// KillConns closes all connections of the server.
func (s *Server) KillConns(why string) int {
	s.mu.Lock()
	var cs []*ServerConn
	for c := range s.conns {
		cs = append(cs, c)
	}
	s.mu.Unlock()
	for _, c := range cs {
		c.Kill(why)
	}
	return len(cs)
}

// OpenConns returns the number of open connections.
func (s *Server) OpenConns() int {
	s.mu.Lock()
	defer s.mu.Unlock()
	return len(s.conns)
}

// Kill closes the connection from the server side.
func (sc *ServerConn) Kill(why string) {
	sc.wmu.Lock()
	already := sc.closed
	sc.closed = true
	sc.wmu.Unlock()
	if !already {
		sc.S.c.Log.Add(Event{Kind: "conn-kill", Server: sc.S.Addr, Conn: sc.ID, Info: why})
	}
	sc.conn.Close()
}

func (s *Server) acceptLoop() {
	for {
		conn, err := s.ln.Accept()
		if err != nil {
			return
		}
		if s.isDown() {
			conn.Close()
			continue
		}
		sc := &ServerConn{ID: nextConnID(), S: s, conn: conn, callIDs: map[uint32]bool{}}
		s.mu.Lock()
		s.conns[sc] = struct{}{}
		s.mu.Unlock()
		s.c.Log.Add(Event{Kind: "accept", Server: s.Addr, Conn: sc.ID, Info: conn.RemoteAddr().String()})
		go s.serve(sc)
	}
}

func (s *Server) serve(sc *ServerConn) {
	c := s.c
	defer func() {
		sc.conn.Close()
		s.mu.Lock()
		delete(s.conns, sc)
		s.mu.Unlock()
		c.Log.Add(Event{Kind: "close", Server: s.Addr, Conn: sc.ID})
	}()
	br := bufio.NewReaderSize(sc.conn, 64<<10)
	hdr, err := ReadPreamble(br)
	if err != nil {
		if m, ok := err.(ErrMalformed); ok {
			c.Log.Add(Event{Kind: "malformed", Server: s.Addr, Conn: sc.ID, Info: "preamble: " + m.Why})
		}
		return
	}
	sc.Header = hdr
	sc.Compressed = hdr.GetCellBlockCompressorClass() != ""
	c.Log.Add(Event{Kind: "hello", Server: s.Addr, Conn: sc.ID,
		Info: fmt.Sprintf("service=%s user=%s codec=%s compressor=%s", hdr.GetServiceName(), hdr.GetUserInfo().GetEffectiveUser(),
			hdr.GetCellBlockCodecClass(), hdr.GetCellBlockCompressorClass())})
	for {
		if ch := s.stallCh(); ch != nil {
			<-ch
		}
		f, err := ReadRequest(br)
		if err != nil {
			if m, ok := err.(ErrMalformed); ok {
				c.Log.Add(Event{Kind: "malformed", Server: s.Addr, Conn: sc.ID, Info: m.Why})
			} else if err.Error() == "unexpected EOF" {
				c.Log.Add(Event{Kind: "malformed", Server: s.Addr, Conn: sc.ID, Info: "connection ended inside a frame"})
			}
			return
		}
		sc.Frames++
		req, err := c.decodeRequest(sc, f)
		if err != nil {
			c.Log.Add(Event{Kind: "malformed", Server: s.Addr, Conn: sc.ID, CallID: f.Header.GetCallId(),
				Method: f.Header.GetMethodName(), Info: err.Error()})
			return
		}
		if sc.callIDs[req.CallID] {
			c.Log.Add(Event{Kind: "malformed", Server: s.Addr, Conn: sc.ID, CallID: req.CallID, Info: "duplicate call id on connection"})
		}
		sc.callIDs[req.CallID] = true
		c.logFrame(req)
		if t := c.Tap; t != nil {
			t(req)
		}
		rep := c.handle(req)
		if rep == nil {
			continue
		}
		if !c.deliver(sc, req, rep) {
			return
		}
	}
}

// Reply is what the simulator sends for a request.
type Reply struct {
	Drop     bool          // send nothing
	KillConn bool          // close the connection (before sending if Drop, after otherwise)
	Delay    time.Duration // extra delay before sending
	Exc      *Exc          // header-level exception
	Msg      proto.Message
	Cells    []Cell // trailing cellblock
	Raw      []byte // send these bytes verbatim instead (complete frame(s))
	// Hold, if non-nil, delays the reply until the channel is closed.
	Hold <-chan struct{}
	// DefaultThenKill: execute the request normally, then close the
	// connection instead of answering (the response is lost).
	DefaultThenKill bool
	// HoldDefault: handle the request normally, but hold its reply until the
	// channel is closed (a server that is slow to answer).
	HoldDefault <-chan struct{}
	// AfterSend is called after the reply was written (or dropped).
	AfterSend func()
}

func (c *Cluster) deliver(sc *ServerConn, req *Request, rep *Reply) bool {
	if rep.Drop {
		if rep.KillConn {
			sc.Kill("script")
			if rep.AfterSend != nil {
				rep.AfterSend()
			}
			return false
		}
		if rep.AfterSend != nil {
			rep.AfterSend()
		}
		return true
	}
	var frame []byte
	if rep.Raw != nil {
		frame = rep.Raw
	} else {
		hdr := &pb.ResponseHeader{CallId: proto.Uint32(req.CallID)}
		var block []byte
		if rep.Exc != nil {
			hdr.Exception = &pb.ExceptionResponse{ExceptionClassName: proto.String(rep.Exc.Class), StackTrace: proto.String(rep.Exc.stack())}
			rep.Msg = nil
		} else if len(rep.Cells) > 0 {
			block = EncodeCells(rep.Cells)
			if sc.Compressed {
				block = CompressStream(block, chunkSpec(len(block)))
			}
			hdr.CellBlockMeta = &pb.CellBlockMeta{Length: proto.Uint32(uint32(len(block)))}
		}
		frame = BuildResponseFrame(hdr, rep.Msg, block)
	}
	kill := rep.KillConn || (rep.Exc != nil && rep.Exc.KillConn)
	delay := rep.Delay
	c.mu.Lock()
	if c.MaxReplyDelay > 0 {
		delay += time.Duration(c.rng.Int63n(int64(c.MaxReplyDelay)))
	}
	c.mu.Unlock()
	send := func() {
		if rep.Hold != nil {
			<-rep.Hold
		}
		if delay > 0 {
			time.Sleep(delay)
		}
		sc.wmu.Lock()
		var err error
		if !sc.closed {
			_, err = sc.conn.Write(frame)
		} else {
			err = net.ErrClosed
		}
		sc.wmu.Unlock()
		info := "ok"
		if err != nil {
			info = "write-failed: " + err.Error()
		}
		c.Log.Add(Event{Kind: "reply", Server: sc.S.Addr, Conn: sc.ID, CallID: req.CallID, Method: req.Method, Info: info})
		if kill {
			sc.Kill("after-reply")
		}
		if rep.AfterSend != nil {
			rep.AfterSend()
		}
	}
	if delay > 0 || rep.Hold != nil {
		go send()
		return true
	}
	send()
	return !kill
}

func (e *Exc) stack() string {
	if e.Stack != "" {
		return e.Stack
	}
	return e.Class + ": simulated\n\tat org.apache.hadoop.hbase.Simulated(Simulated.java:1)\n"
}

// chunkSpec cuts n bytes into one block of SnappyChunk-sized chunks.
func chunkSpec(n int) []BlockSpec {
	var blk BlockSpec
	for n > 0 {
		k := n
		if k > SnappyChunk {
			k = SnappyChunk
		}
		blk = append(blk, k)
		n -= k
	}
	if len(blk) == 0 {
		return nil
	}
	return []BlockSpec{blk}
}

// Action is one single-row operation (standalone or inside a multi).
type Action struct {
	Index    uint32 // 1-based index inside a multi, 0 for standalone
	Region   []byte
	Get      *pb.Get
	Mutation *pb.MutationProto
	Cond     *pb.Condition
	Cells    []Cell // cells of the mutation (from cellblock or protobuf)
	OpID     string
	Row      []byte
}

// Kind names the operation.
func (a *Action) Kind() string {
	if a.Get != nil {
		if a.Get.GetExistenceOnly() {
			return "exists"
		}
		return "get"
	}
	if a.Cond != nil {
		return "checkandput"
	}
	switch a.Mutation.GetMutateType() {
	case pb.MutationProto_PUT:
		return "put"
	case pb.MutationProto_DELETE:
		return "delete"
	case pb.MutationProto_APPEND:
		return "append"
	case pb.MutationProto_INCREMENT:
		return "increment"
	}
	return "mutate?"
}

// RegionActions is one region's share of a multi.
type RegionActions struct {
	Region  []byte
	Actions []*Action
}

// Request is one decoded request frame.
type Request struct {
	Conn     *ServerConn
	Server   string
	CallID   uint32
	Method   string
	Priority uint32
	Frame    *ReqFrame
	Param    proto.Message
	Cells    []Cell // all cells of the trailing cellblock
	Single   *Action
	Multi    []*RegionActions
	Scan     *pb.ScanRequest
	T        time.Duration
}

// OpIDPrefix marks qualifiers that carry an operation id.
const OpIDPrefix = "op:"

func opIDFromCells(cells []Cell) string {
	for _, c := range cells {
		if len(c.Qualifier) > len(OpIDPrefix) && string(c.Qualifier[:len(OpIDPrefix)]) == OpIDPrefix {
			return string(c.Qualifier)
		}
	}
	return ""
}

func opIDFromGet(g *pb.Get) string {
	for _, col := range g.Column {
		for _, q := range col.Qualifier {
			if len(q) > len(OpIDPrefix) && string(q[:len(OpIDPrefix)]) == OpIDPrefix {
				return string(q)
			}
		}
	}
	return ""
}

// mutationCells extracts the cells of a mutation given in protobuf form.
func mutationCells(mp *pb.MutationProto) []Cell {
	var out []Cell
	isDel := mp.GetMutateType() == pb.MutationProto_DELETE
	for _, cv := range mp.ColumnValue {
		for _, qv := range cv.QualifierValue {
			ts := LatestTimestamp
			if qv.Timestamp != nil {
				ts = *qv.Timestamp
			}
			t := byte(TypePut)
			if isDel {
				switch qv.GetDeleteType() {
				case pb.MutationProto_DELETE_ONE_VERSION:
					t = TypeDelete
				case pb.MutationProto_DELETE_MULTIPLE_VERSIONS:
					t = TypeDeleteColumn
				case pb.MutationProto_DELETE_FAMILY:
					t = TypeDeleteFamily
				case pb.MutationProto_DELETE_FAMILY_VERSION:
					t = TypeDeleteFamilyVersion
				}
			}
			out = append(out, Cell{Row: mp.Row, Family: cv.Family, Qualifier: qv.Qualifier, TS: ts, Type: t, Value: qv.Value})
		}
	}
	return out
}

func (c *Cluster) decodeRequest(sc *ServerConn, f *ReqFrame) (*Request, error) {
	h := f.Header
	if h.CallId == nil {
		return nil, ErrMalformed{"request header without call id"}
	}
	if h.MethodName == nil {
		return nil, ErrMalformed{"request header without method name"}
	}
	req := &Request{Conn: sc, Server: sc.S.Addr, CallID: h.GetCallId(), Method: h.GetMethodName(),
		Priority: h.GetPriority(), Frame: f, T: c.Log.Now()}
	block := f.Cellblock
	if len(block) > 0 {
		if sc.Compressed {
			dec, _, err := DecompressStream(block)
			if err != nil {
				return nil, ErrMalformed{"compressed cellblock: " + err.Error()}
			}
			block = dec
		}
		cells, err := DecodeCells(block)
		if err != nil {
			return nil, ErrMalformed{"cellblock: " + err.Error()}
		}
		req.Cells = cells
	}
	next := 0
	take := func(mp *pb.MutationProto) ([]Cell, error) {
		if mp.AssociatedCellCount == nil {
			return mutationCells(mp), nil
		}
		n := int(mp.GetAssociatedCellCount())
		if n < 0 || next+n > len(req.Cells) {
			return nil, ErrMalformed{fmt.Sprintf("associated_cell_count %d exceeds cells in cellblock (%d of %d used)", n, next, len(req.Cells))}
		}
		if len(mp.ColumnValue) != 0 {
			return nil, ErrMalformed{"mutation carries both column values and associated cells"}
		}
		cs := req.Cells[next : next+n]
		next += n
		return cs, nil
	}
	unmarshal := func(m proto.Message) error {
		if err := proto.Unmarshal(f.ParamRaw, m); err != nil {
			return ErrMalformed{"request param: " + err.Error()}
		}
		req.Param = m
		return nil
	}
	switch req.Method {
	case "Get":
		m := &pb.GetRequest{}
		if err := unmarshal(m); err != nil {
			return nil, err
		}
		if m.Get == nil || m.Region == nil {
			return nil, ErrMalformed{"get without get/region"}
		}
		req.Single = &Action{Region: m.Region.Value, Get: m.Get, Row: m.Get.Row, OpID: opIDFromGet(m.Get)}
	case "Mutate":
		m := &pb.MutateRequest{}
		if err := unmarshal(m); err != nil {
			return nil, err
		}
		if m.Mutation == nil || m.Region == nil {
			return nil, ErrMalformed{"mutate without mutation/region"}
		}
		cs, err := take(m.Mutation)
		if err != nil {
			return nil, err
		}
		req.Single = &Action{Region: m.Region.Value, Mutation: m.Mutation, Cond: m.Condition, Cells: cs, Row: m.Mutation.Row, OpID: opIDFromCells(cs)}
	case "Multi":
		m := &pb.MultiRequest{}
		if err := unmarshal(m); err != nil {
			return nil, err
		}
		seen := map[uint32]bool{}
		for _, ra := range m.RegionAction {
			if ra.Region == nil {
				return nil, ErrMalformed{"region action without region"}
			}
			ras := &RegionActions{Region: ra.Region.Value}
			for _, a := range ra.Action {
				act := &Action{Index: a.GetIndex(), Region: ra.Region.Value}
				if a.Index == nil || seen[act.Index] {
					return nil, ErrMalformed{fmt.Sprintf("multi action index missing or repeated (%d)", act.Index)}
				}
				seen[act.Index] = true
				switch {
				case a.Get != nil && a.Mutation == nil:
					act.Get, act.Row, act.OpID = a.Get, a.Get.Row, opIDFromGet(a.Get)
				case a.Mutation != nil && a.Get == nil:
					cs, err := take(a.Mutation)
					if err != nil {
						return nil, err
					}
					act.Mutation, act.Cells, act.Row, act.OpID = a.Mutation, cs, a.Mutation.Row, opIDFromCells(cs)
				default:
					return nil, ErrMalformed{"multi action with neither or both of get and mutation"}
				}
				ras.Actions = append(ras.Actions, act)
			}
			req.Multi = append(req.Multi, ras)
		}
	case "Scan":
		m := &pb.ScanRequest{}
		if err := unmarshal(m); err != nil {
			return nil, err
		}
		req.Scan = m
	default:
		// master service and anything else: keep the raw parameter
	}
	if next != len(req.Cells) {
		return nil, ErrMalformed{fmt.Sprintf("cellblock holds %d cells but the request accounts for %d", len(req.Cells), next)}
	}
	return req, nil
}

func (c *Cluster) logFrame(req *Request) {
	e := Event{Kind: "frame", Server: req.Server, Conn: req.Conn.ID, CallID: req.CallID, Method: req.Method, N: int64(len(req.Frame.Raw))}
	switch {
	case req.Single != nil:
		e.Region, e.Row, e.OpID, e.Info = string(req.Single.Region), req.Single.Row, req.Single.OpID, req.Single.Kind()
	case req.Multi != nil:
		n := 0
		for _, ra := range req.Multi {
			n += len(ra.Actions)
		}
		e.Info = fmt.Sprintf("regions=%d actions=%d", len(req.Multi), n)
	case req.Scan != nil:
		s := req.Scan
		e.Region = string(s.GetRegion().GetValue())
		if s.Scan != nil {
			e.Row = s.Scan.StartRow
			e.Info = fmt.Sprintf("open close=%v n=%d reversed=%v", s.GetCloseScanner(), s.GetNumberOfRows(), s.Scan.GetReversed())
			for _, a := range s.Scan.Attribute {
				if a.GetName() == "opid" {
					e.OpID = string(a.Value)
				}
			}
		} else {
			e.Info = fmt.Sprintf("scanner=%d close=%v renew=%v n=%d", s.GetScannerId(), s.GetCloseScanner(), s.GetRenew(), s.GetNumberOfRows())
			e.N = int64(s.GetScannerId())
		}
	}
	c.Log.Add(e)
}
